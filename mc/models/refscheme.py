"""refscheme -- a small definitional interpreter (CEK machine) for the R7RS core language, used as the
independent oracle of C03 / C06 / C09.  Boring on purpose: an s-expression reader, a register machine whose
continuations are immutable linked frames (so call/cc is re-entrant by construction), and the R7RS dynamic
environment (wind list, handler stack, parameter bindings) carried as one immutable record.

Not a performance artefact and not complete: exactly the subset the generators emit.
Argument evaluation order is left to right here; generated programs are insensitive to it.
"""
import sys

# ------------------------------------------------------------------------------------------ data


class Sym(str):
    __slots__ = ()

    def __repr__(self):
        return "Sym(%s)" % str.__repr__(self)


_symtab = {}


def S(name):
    s = _symtab.get(name)
    if s is None:
        s = _symtab[name] = Sym(name)
    return s


class Nil:
    def __repr__(self):
        return "()"


NIL = Nil()


class Void:
    def __repr__(self):
        return "#<void>"


VOID = Void()


class Undef:
    pass


UNDEF = Undef()    # value of a letrec*/internal-define variable before initialisation


class Pair:
    __slots__ = ("car", "cdr")

    def __init__(self, a, d):
        self.car, self.cdr = a, d


class Vec:
    __slots__ = ("items",)

    def __init__(self, items):
        self.items = list(items)


class MStr:
    __slots__ = ("s",)

    def __init__(self, s):
        self.s = s


class Char:
    __slots__ = ("c",)

    def __init__(self, c):
        self.c = c


class Values:
    __slots__ = ("vals",)

    def __init__(self, vals):
        self.vals = tuple(vals)


class Closure:
    __slots__ = ("params", "rest", "body", "env", "name")

    def __init__(self, params, rest, body, env, name=None):
        self.params, self.rest, self.body, self.env, self.name = params, rest, body, env, name


class Prim:
    __slots__ = ("name", "fn", "lo", "hi")

    def __init__(self, name, fn, lo, hi):
        self.name, self.fn, self.lo, self.hi = name, fn, lo, hi


class Special:
    """procedures that need the machine (apply, call/cc, dynamic-wind, values, ...)"""
    __slots__ = ("name",)

    def __init__(self, name):
        self.name = name


class Cont:
    __slots__ = ("k", "dyn")

    def __init__(self, k, dyn):
        self.k, self.dyn = k, dyn


class Param:
    __slots__ = ("init", "conv")

    def __init__(self, init, conv):
        self.init, self.conv = init, conv


class ErrObj:
    """error object made by `error` or by a failing primitive"""
    __slots__ = ("msg", "irritants", "kind")

    def __init__(self, msg, irritants, kind="user"):
        self.msg, self.irritants, self.kind = msg, irritants, kind


class SchemeError(Exception):
    """uncaught raise reaching top level"""

    def __init__(self, payload, continuable=False):
        self.payload = payload


class Unsupported(Exception):
    pass


def lst(*xs, tail=NIL):
    r = tail
    for x in reversed(xs):
        r = Pair(x, r)
    return r


def pylist(x):
    out = []
    while isinstance(x, Pair):
        out.append(x.car)
        x = x.cdr
    if x is not NIL:
        raise TypeError("improper list")
    return out


def is_list(x):
    seen = 0
    while isinstance(x, Pair):
        x = x.cdr
        seen += 1
        if seen > 100000:
            return False
    return x is NIL


# ------------------------------------------------------------------------------------------ reader

def tokenize(text):
    i, n = 0, len(text)
    toks = []
    while i < n:
        c = text[i]
        if c in " \t\n\r":
            i += 1
        elif c == ";":
            while i < n and text[i] != "\n":
                i += 1
        elif c in "()'`":
            toks.append(c)
            i += 1
        elif c == ",":
            if i + 1 < n and text[i + 1] == "@":
                toks.append(",@")
                i += 2
            else:
                toks.append(",")
                i += 1
        elif c == '"':
            j = i + 1
            buf = []
            while text[j] != '"':
                if text[j] == "\\":
                    j += 1
                    buf.append({"n": "\n", "t": "\t"}.get(text[j], text[j]))
                else:
                    buf.append(text[j])
                j += 1
            toks.append(("str", "".join(buf)))
            i = j + 1
        elif c == "#" and i + 1 < n and text[i + 1] == "(":
            toks.append("#(")
            i += 2
        else:
            j = i
            while j < n and text[j] not in " \t\n\r()'`,\";":
                j += 1
            toks.append(("atom", text[i:j]))
            i = j
    return toks


def parse_atom(a):
    if a == "#t" or a == "#true":
        return True
    if a == "#f" or a == "#false":
        return False
    if a.startswith("#\\"):
        names = {"space": " ", "newline": "\n", "tab": "\t"}
        return Char(names.get(a[2:], a[2:]))
    try:
        return int(a)
    except ValueError:
        pass
    import re as _re
    from fractions import Fraction as _F
    if _re.fullmatch(r"[-+]?\d+/\d+", a):
        f = _F(a)
        return int(f) if f.denominator == 1 else f
    if _re.fullmatch(r"[-+]?(\d+\.\d*|\.\d+)", a):
        return float(a)
    return S(a)


def read_all(text):
    toks = tokenize(text)
    pos = [0]

    def rd():
        t = toks[pos[0]]
        pos[0] += 1
        if t == "(":
            items = []
            tail = NIL
            while toks[pos[0]] != ")":
                if toks[pos[0]] == ("atom", "."):
                    pos[0] += 1
                    tail = rd()
                else:
                    items.append(rd())
            pos[0] += 1
            return lst(*items, tail=tail)
        if t == "#(":
            items = []
            while toks[pos[0]] != ")":
                items.append(rd())
            pos[0] += 1
            return Vec(items)
        if t == "'":
            return lst(S("quote"), rd())
        if t == "`":
            return lst(S("quasiquote"), rd())
        if t == ",":
            return lst(S("unquote"), rd())
        if t == ",@":
            return lst(S("unquote-splicing"), rd())
        if t == ")":
            raise SyntaxError("unexpected )")
        if t[0] == "str":
            return MStr(t[1])
        return parse_atom(t[1])

    out = []
    while pos[0] < len(toks):
        out.append(rd())
    return out


# ------------------------------------------------------------------------------------------ printer

def _flo_text(x):
    # the values used by the generators are short decimals: Python's repr is the shortest round-trip form, like chibi's writer
    r = repr(x)
    return r[:-2] + ".0" if r.endswith(".0") else r


def write(x, display=False):
    out = []
    _write(x, out, display)
    return "".join(out)


def _write(x, out, display):
    if x is True:
        out.append("#t")
    elif x is False:
        out.append("#f")
    elif isinstance(x, float):
        out.append(_flo_text(x))
    elif type(x).__name__ == "Fraction":
        out.append("%d/%d" % (x.numerator, x.denominator))
    elif isinstance(x, int):
        out.append(str(x))
    elif isinstance(x, Sym):
        out.append(str(x))
    elif x is NIL:
        out.append("()")
    elif isinstance(x, MStr):
        out.append(x.s if display else '"' + x.s.replace("\\", "\\\\").replace('"', '\\"').replace("\n", "\\n") + '"')
    elif isinstance(x, Char):
        out.append(x.c if display else "#\\" + {" ": "space", "\n": "newline"}.get(x.c, x.c))
    elif isinstance(x, Pair):
        out.append("(")
        first = True
        n = 0
        while isinstance(x, Pair):
            if not first:
                out.append(" ")
            _write(x.car, out, display)
            first = False
            x = x.cdr
            n += 1
            if n > 100000:
                raise Unsupported("cyclic print")
        if x is not NIL:
            out.append(" . ")
            _write(x, out, display)
        out.append(")")
    elif isinstance(x, Vec):
        out.append("#(")
        for i, e in enumerate(x.items):
            if i:
                out.append(" ")
            _write(e, out, display)
        out.append(")")
    elif isinstance(x, (Closure, Prim, Special, Cont, Param)):
        out.append("#<procedure>")
    elif x is VOID:
        out.append("#<unspecified>")
    elif isinstance(x, ErrObj):
        out.append("#<error>")
    elif isinstance(x, Values):
        out.append("#<values>")
    else:
        out.append("#<%s>" % type(x).__name__)


# ------------------------------------------------------------------------------------------ environments

class Env:
    __slots__ = ("vars", "parent")

    def __init__(self, parent=None):
        self.vars = {}
        self.parent = parent

    def lookup_frame(self, name):
        e = self
        while e is not None:
            if name in e.vars:
                return e
            e = e.parent
        return None


class Dyn:
    """dynamic environment: wind list, handler stack, parameter bindings (all immutable linked lists)"""
    __slots__ = ("winds", "handlers", "params")

    def __init__(self, winds, handlers, params):
        self.winds, self.handlers, self.params = winds, handlers, params

    def with_(self, **kw):
        d = Dyn(self.winds, self.handlers, self.params)
        for k, v in kw.items():
            setattr(d, k, v)
        return d


class Wind:
    __slots__ = ("before", "after", "parent", "depth", "dyn0")

    def __init__(self, before, after, parent, dyn0=None):
        self.before, self.after, self.parent, self.dyn0 = before, after, parent, dyn0
        self.depth = 0 if parent is None else parent.depth + 1


def wind_depth(w):
    return -1 if w is None else w.depth


# ------------------------------------------------------------------------------------------ the machine

class Machine:
    def __init__(self, step_limit=2000000):
        self.out = []
        self.genv = Env()
        self.steps = 0
        self.step_limit = step_limit
        self.dyn = Dyn(None, None, None)
        install_primitives(self)

    # -------- errors raised by the machine itself are Scheme exceptions delivered to the handler stack
    def err(self, msg, *irritants, kind="runtime"):
        return ErrObj(msg, lst(*irritants), kind)

    # -------- top level
    def run_program(self, forms):
        """evaluate top-level forms in order; returns list of (ok, value|payload)"""
        results = []
        for f in forms:
            try:
                v = self.eval_top(f)
                results.append((True, v))
            except SchemeError as e:
                results.append((False, e.payload))
        return results

    def eval_top(self, form):
        self.dyn = Dyn(None, None, None)
        return self.loop(("eval", form, self.genv, ("halt",)))

    # -------- the step loop.  A state is ("eval", expr, env, k) or ("ret", value, k) or ("apply", f, args, k)
    def loop(self, state):
        while True:
            self.steps += 1
            if self.steps > self.step_limit:
                raise Unsupported("step limit")
            tag = state[0]
            if tag == "eval":
                state = self.ev(state[1], state[2], state[3])
            elif tag == "ret":
                v, k = state[1], state[2]
                if k[0] == "halt":
                    return v
                state = self.ret(v, k)
            elif tag == "apply":
                state = self.apply(state[1], state[2], state[3])
            elif tag == "raise":
                state = self.do_raise(state[1], state[2], state[3])
            else:
                raise AssertionError(tag)

    # -------- evaluation
    def ev(self, x, env, k):
        if isinstance(x, Sym):
            fr = env.lookup_frame(x)
            if fr is None:
                return ("raise", self.err("undefined variable", x), False, k)
            v = fr.vars[x]
            if v is UNDEF:
                raise Unsupported("reference to uninitialised variable %s (an error in R7RS)" % x)
            return ("ret", v, k)
        if not isinstance(x, Pair):
            if x is NIL:
                return ("raise", self.err("empty application"), False, k)
            return ("ret", x, k)   # self-evaluating
        head = x.car
        if isinstance(head, Sym) and str(head) in _SF and env.lookup_frame(head) is None:
            return getattr(self, "sf_" + _SF[str(head)])(x, env, k)
        # application: evaluate operator then operands left to right
        return ("eval", head, env, ("args", x.cdr, env, [], k))

    def _is_syntax(self, head, env):
        # a keyword is syntax unless shadowed by a variable binding
        if str(head) not in _SF:
            return False
        return env.lookup_frame(head) is None

    def ret(self, v, k):
        tag = k[0]
        if tag == "args":
            _, rest, env, done, nk = k
            if isinstance(v, Values):
                raise Unsupported("multiple values in argument position")
            done = done + [v]
            if isinstance(rest, Pair):
                return ("eval", rest.car, env, ("args", rest.cdr, env, done, nk))
            return ("apply", done[0], done[1:], nk)
        if tag == "if":
            _, conseq, alt, env, nk = k
            if v is not False:
                return ("eval", conseq, env, nk)
            if alt is None:
                return ("ret", VOID, nk)
            return ("eval", alt, env, nk)
        if tag == "seq":
            _, rest, env, nk = k
            return self.eval_seq(rest, env, nk)
        if tag == "define":
            _, name, env, nk = k
            if isinstance(v, Closure) and v.name is None:
                v.name = name
            env.vars[name] = v
            return ("ret", VOID, nk)
        if tag == "set":
            _, name, env, nk = k
            fr = env.lookup_frame(name)
            if fr is None:
                return ("raise", self.err("undefined variable", name), False, nk)
            fr.vars[name] = v
            return ("ret", VOID, nk)
        if tag == "fn":
            return k[1](v, k[2])
        if tag == "dyn":      # restore the dynamic environment on normal return
            self.dyn = k[1]
            return ("ret", v, k[2])
        raise AssertionError(tag)

    def eval_seq(self, body, env, k):
        if body is NIL:
            return ("ret", VOID, k)
        if body.cdr is NIL:
            return ("eval", body.car, env, k)
        return ("eval", body.car, env, ("seq", body.cdr, env, k))

    def eval_body(self, body, env, k):
        """lambda / let body: leading internal defines have letrec* semantics"""
        forms = pylist(body)
        # splice (begin ...) containing defines
        i = 0
        defs = []
        while i < len(forms):
            f = forms[i]
            if isinstance(f, Pair) and f.car is S("begin") and env.lookup_frame(S("begin")) is None and self._all_defines(f.cdr, env):
                forms[i:i + 1] = pylist(f.cdr)
                continue
            if isinstance(f, Pair) and f.car is S("define") and env.lookup_frame(S("define")) is None:
                defs.append(f)
                i += 1
            elif isinstance(f, Pair) and f.car is S("define-values") and env.lookup_frame(S("define-values")) is None:
                defs.append(f)
                i += 1
            else:
                break
        rest = forms[i:]
        for f in rest:
            if isinstance(f, Pair) and f.car is S("define") and env.lookup_frame(S("define")) is None:
                raise Unsupported("define after expression in body")
        if not defs:
            return self.eval_seq(lst(*rest), env, k)
        benv = Env(env)
        for d in defs:
            if d.car is S("define"):
                target = d.cdr.car
                while isinstance(target, Pair):
                    target = target.car
                benv.vars[target] = UNDEF
            else:
                t = d.cdr.car
                while isinstance(t, Pair):
                    benv.vars[t.car] = UNDEF
                    t = t.cdr
                if t is not NIL:
                    benv.vars[t] = UNDEF
        return self.eval_seq(lst(*(defs + rest)), benv, k)

    def _all_defines(self, body, env):
        fs = pylist(body)
        return bool(fs) and all(isinstance(f, Pair) and f.car is S("define") for f in fs)

    # -------- special forms
    def sf_quote(self, x, env, k):
        return ("ret", x.cdr.car, k)

    def sf_if(self, x, env, k):
        test = x.cdr.car
        conseq = x.cdr.cdr.car
        alt = x.cdr.cdr.cdr.car if x.cdr.cdr.cdr is not NIL else None
        return ("eval", test, env, ("if", conseq, alt, env, k))

    def sf_lambda(self, x, env, k):
        params, rest = self.parse_params(x.cdr.car)
        return ("ret", Closure(params, rest, x.cdr.cdr, env), k)

    def parse_params(self, p):
        params = []
        while isinstance(p, Pair):
            params.append(p.car)
            p = p.cdr
        return params, (p if p is not NIL else None)

    def sf_define(self, x, env, k):
        target = x.cdr.car
        if isinstance(target, Pair):
            # (define (name . params) body...) possibly curried
            name = target.car
            lam = lst(S("lambda"), target.cdr, tail=x.cdr.cdr)
            if isinstance(name, Pair):
                return self.sf_define(lst(S("define"), name, lam), env, k)
            params, rest = self.parse_params(target.cdr)
            c = Closure(params, rest, x.cdr.cdr, env, name)
            env.vars[name] = c
            return ("ret", VOID, k)
        if x.cdr.cdr is NIL:
            env.vars[target] = VOID
            return ("ret", VOID, k)
        return ("eval", x.cdr.cdr.car, env, ("define", target, env, k))

    def sf_set(self, x, env, k):
        return ("eval", x.cdr.cdr.car, env, ("set", x.cdr.car, env, k))

    def sf_begin(self, x, env, k):
        return self.eval_seq(x.cdr, env, k)

    def sf_let(self, x, env, k):
        if isinstance(x.cdr.car, Sym):   # named let
            name = x.cdr.car
            bindings = pylist(x.cdr.cdr.car)
            body = x.cdr.cdr.cdr
            vars_ = [b.car for b in bindings]
            inits = [b.cdr.car for b in bindings]
            # ((letrec ((name (lambda vars body...))) name) inits...)
            lam = lst(S("lambda"), lst(*vars_), tail=body)
            form = lst(lst(S("letrec"), lst(lst(name, lam)), name), *inits)
            return ("eval", form, env, k)
        bindings = pylist(x.cdr.car)
        body = x.cdr.cdr
        vars_ = [b.car for b in bindings]
        inits = [b.cdr.car for b in bindings]

        def after(vals, nk):
            nenv = Env(env)
            for v, val in zip(vars_, vals):
                nenv.vars[v] = val
            return self.eval_body(body, nenv, nk)
        return self.eval_list(inits, env, after, k)

    def eval_list(self, exprs, env, cont, k):
        """evaluate exprs left to right, then cont(values, k)"""
        def step(i, acc):
            if i == len(exprs):
                return cont(acc, k)
            return ("eval", exprs[i], env, ("fn", lambda v, _: step(i + 1, acc + [self.single(v)]), None))
        return step(0, [])

    def single(self, v):
        if isinstance(v, Values):
            if len(v.vals) == 1:
                return v.vals[0]
            raise Unsupported("multiple values where one is expected")
        return v

    def sf_letstar(self, x, env, k):
        bindings = pylist(x.cdr.car)
        body = x.cdr.cdr
        if not bindings:
            return self.eval_body(body, Env(env), k)
        form = lst(S("let"), lst(bindings[0]), lst(S("let*"), lst(*bindings[1:]), tail=body))
        if len(bindings) == 1:
            form = lst(S("let"), lst(bindings[0]), tail=body)
        return ("eval", form, env, k)

    def sf_letrec(self, x, env, k):
        bindings = pylist(x.cdr.car)
        body = x.cdr.cdr
        nenv = Env(env)
        for b in bindings:
            nenv.vars[b.car] = UNDEF
        inits = [b.cdr.car for b in bindings]

        def after(vals, nk):
            for b, v in zip(bindings, vals):
                if isinstance(v, Closure) and v.name is None:
                    v.name = b.car
                nenv.vars[b.car] = v
            return self.eval_body(body, nenv, nk)
        if str(x.car) == "letrec*":
            # sequential initialisation
            def step(i):
                if i == len(bindings):
                    return self.eval_body(body, nenv, k)

                def got(v, _):
                    v = self.single(v)
                    if isinstance(v, Closure) and v.name is None:
                        v.name = bindings[i].car
                    nenv.vars[bindings[i].car] = v
                    return step(i + 1)
                return ("eval", inits[i], nenv, ("fn", got, None))
            return step(0)
        return self.eval_list(inits, nenv, after, k)

    def sf_cond(self, x, env, k):
        clauses = pylist(x.cdr)

        def step(i):
            if i == len(clauses):
                return ("ret", VOID, k)
            c = clauses[i]
            if c.car is S("else") and env.lookup_frame(S("else")) is None:
                return self.eval_seq(c.cdr, env, k)

            def got(v, _):
                v = self.single(v)
                if v is False:
                    return step(i + 1)
                if c.cdr is NIL:
                    return ("ret", v, k)
                if c.cdr.car is S("=>") and env.lookup_frame(S("=>")) is None:
                    return ("eval", c.cdr.cdr.car, env, ("fn", lambda f, _2: ("apply", self.single(f), [v], k), None))
                return self.eval_seq(c.cdr, env, k)
            return ("eval", c.car, env, ("fn", got, None))
        return step(0)

    def sf_case(self, x, env, k):
        clauses = pylist(x.cdr.cdr)

        def got(key, _):
            key = self.single(key)
            for c in clauses:
                if c.car is S("else") and env.lookup_frame(S("else")) is None:
                    hit = True
                else:
                    hit = any(eqv(key, d) for d in pylist(c.car))
                if hit:
                    if c.cdr is not NIL and c.cdr.car is S("=>") and env.lookup_frame(S("=>")) is None:
                        return ("eval", c.cdr.cdr.car, env, ("fn", lambda f, _2: ("apply", self.single(f), [key], k), None))
                    return self.eval_seq(c.cdr, env, k)
            return ("ret", VOID, k)
        return ("eval", x.cdr.car, env, ("fn", got, None))

    def sf_and(self, x, env, k):
        exprs = pylist(x.cdr)
        if not exprs:
            return ("ret", True, k)

        def step(i):
            if i == len(exprs) - 1:
                return ("eval", exprs[i], env, k)
            return ("eval", exprs[i], env, ("fn", lambda v, _: ("ret", False, k) if self.single(v) is False else step(i + 1), None))
        return step(0)

    def sf_or(self, x, env, k):
        exprs = pylist(x.cdr)
        if not exprs:
            return ("ret", False, k)

        def step(i):
            if i == len(exprs) - 1:
                return ("eval", exprs[i], env, k)
            return ("eval", exprs[i], env, ("fn", lambda v, _: step(i + 1) if self.single(v) is False else ("ret", self.single(v), k), None))
        return step(0)

    def sf_when(self, x, env, k):
        return ("eval", x.cdr.car, env, ("fn", lambda v, _: self.eval_seq(x.cdr.cdr, env, k) if self.single(v) is not False else ("ret", VOID, k), None))

    def sf_unless(self, x, env, k):
        return ("eval", x.cdr.car, env, ("fn", lambda v, _: self.eval_seq(x.cdr.cdr, env, k) if self.single(v) is False else ("ret", VOID, k), None))

    def sf_do(self, x, env, k):
        specs = pylist(x.cdr.car)
        test_clause = x.cdr.cdr.car
        body = x.cdr.cdr.cdr
        vars_ = [s.car for s in specs]
        inits = [s.cdr.car for s in specs]
        steps = [(s.cdr.cdr.car if s.cdr.cdr is not NIL else None) for s in specs]

        def iterate(vals, _k):
            nenv = Env(env)
            for v, val in zip(vars_, vals):
                nenv.vars[v] = val

            def tested(t, _):
                if self.single(t) is not False:
                    return self.eval_seq(test_clause.cdr, nenv, k)

                def after_body(_v, _2):
                    exprs = [st if st is not None else var for st, var in zip(steps, vars_)]
                    return self.eval_list(exprs, nenv, iterate, k)
                if body is NIL:
                    return after_body(None, None)
                return self.eval_seq(body, nenv, ("fn", after_body, None))
            return ("eval", test_clause.car, nenv, ("fn", tested, None))
        return self.eval_list(inits, env, iterate, k)

    def sf_quasiquote(self, x, env, k):
        return self.qq(x.cdr.car, 1, env, k)

    def qq(self, t, depth, env, k):
        if isinstance(t, Pair):
            if t.car is S("unquote") and isinstance(t.cdr, Pair) and t.cdr.cdr is NIL:
                if depth == 1:
                    return ("eval", t.cdr.car, env, ("fn", lambda v, _: ("ret", self.single(v), k), None))
                return self.qq(t.cdr.car, depth - 1, env, ("fn", lambda v, _: ("ret", lst(S("unquote"), v), k), None))
            if t.car is S("quasiquote") and isinstance(t.cdr, Pair) and t.cdr.cdr is NIL:
                return self.qq(t.cdr.car, depth + 1, env, ("fn", lambda v, _: ("ret", lst(S("quasiquote"), v), k), None))
            if isinstance(t.car, Pair) and t.car.car is S("unquote-splicing") and isinstance(t.car.cdr, Pair) and t.car.cdr.cdr is NIL:
                if depth == 1:
                    def got(v, _):
                        v = self.single(v)

                        def got_rest(r, _2):
                            if t.cdr is NIL and r is NIL:
                                return ("ret", v, k)
                            if not is_list(v):
                                return ("raise", self.err("unquote-splicing of a non-list"), False, k)
                            return ("ret", lst(*pylist(v), tail=r), k)
                        return self.qq(t.cdr, depth, env, ("fn", got_rest, None))
                    return ("eval", t.car.cdr.car, env, ("fn", got, None))

                def got2(v, _):
                    return self.qq(t.cdr, depth, env, ("fn", lambda r, _2: ("ret", Pair(lst(S("unquote-splicing"), v), r), k), None))
                return self.qq(t.car.cdr.car, depth - 1, env, ("fn", got2, None))

            def got_car(a, _):
                return self.qq(t.cdr, depth, env, ("fn", lambda d, _2: ("ret", Pair(a, d), k), None))
            return self.qq(t.car, depth, env, ("fn", got_car, None))
        if isinstance(t, Vec):
            return self.qq(lst(*t.items), depth, env, ("fn", lambda v, _: ("ret", Vec(pylist(v)), k), None))
        return ("ret", t, k)

    def sf_letvalues(self, x, env, k):
        bindings = pylist(x.cdr.car)
        body = x.cdr.cdr
        star = str(x.car) == "let*-values"
        nenv = Env(env)

        def step(i):
            if i == len(bindings):
                return self.eval_body(body, nenv, k)
            formals, init = bindings[i].car, bindings[i].cdr.car

            def got(v, _):
                vals = list(v.vals) if isinstance(v, Values) else [v]
                params, rest = self.parse_params(formals)
                if len(vals) < len(params) or (rest is None and len(vals) != len(params)):
                    return ("raise", self.err("wrong number of values"), False, k)
                for p, val in zip(params, vals):
                    nenv.vars[p] = val
                if rest is not None:
                    nenv.vars[rest] = lst(*vals[len(params):])
                return step(i + 1)
            return ("eval", init, nenv if star else env, ("fn", got, None))
        return step(0)

    def sf_definevalues(self, x, env, k):
        formals, init = x.cdr.car, x.cdr.cdr.car

        def got(v, _):
            vals = list(v.vals) if isinstance(v, Values) else [v]
            params, rest = self.parse_params(formals)
            if len(vals) < len(params) or (rest is None and len(vals) != len(params)):
                return ("raise", self.err("wrong number of values"), False, k)
            for p, val in zip(params, vals):
                env.vars[p] = val
            if rest is not None:
                env.vars[rest] = lst(*vals[len(params):])
            return ("ret", VOID, k)
        return ("eval", init, env, ("fn", got, None))

    def sf_caselambda(self, x, env, k):
        clauses = []
        for c in pylist(x.cdr):
            params, rest = self.parse_params(c.car)
            clauses.append(Closure(params, rest, c.cdr, env))
        return ("ret", CaseLambda(clauses), k)

    def sf_parameterize(self, x, env, k):
        bindings = pylist(x.cdr.car)
        body = x.cdr.cdr
        exprs = []
        for b in bindings:
            exprs += [b.car, b.cdr.car]

        def after(vals, nk):
            pairs = list(zip(vals[0::2], vals[1::2]))

            def conv(i, acc):
                if i == len(pairs):
                    saved = self.dyn
                    params = self.dyn.params
                    for p, v in acc:
                        params = (p, [v], params)
                    self.dyn = self.dyn.with_(params=params)
                    return self.eval_body(body, Env(env), ("dyn", saved, nk))
                p, v = pairs[i]
                if not isinstance(p, Param):
                    return ("raise", self.err("not a parameter"), False, nk)
                if p.conv is None:
                    return conv(i + 1, acc + [(p, v)])
                return ("apply", p.conv, [v], ("fn", lambda cv, _: conv(i + 1, acc + [(p, self.single(cv))]), None))
            return conv(0, [])
        return self.eval_list(exprs, env, after, k)

    def sf_guard(self, x, env, k):
        # (guard (var clause...) body...)   -- R7RS reference semantics (see module docstring of c06)
        var = x.cdr.car.car
        clauses = x.cdr.car.cdr
        body = x.cdr.cdr
        d0 = self.dyn
        h = GuardHandler(var, clauses, env, k, d0)
        self.dyn = d0.with_(handlers=(h, d0.handlers))
        return self.eval_body(body, Env(env), ("dyn", d0, k))

    def sf_delay(self, x, env, k):
        raise Unsupported("delay")

    # -------- application
    def apply(self, f, args, k):
        if isinstance(f, Closure):
            np = len(f.params)
            if len(args) < np or (f.rest is None and len(args) > np):
                return ("raise", self.err("wrong number of arguments", kind="arity"), False, k)
            env = Env(f.env)
            for p, a in zip(f.params, args):
                env.vars[p] = a
            if f.rest is not None:
                env.vars[f.rest] = lst(*args[np:])
            return self.eval_body(f.body, env, k)
        if isinstance(f, CaseLambda):
            for c in f.clauses:
                if len(args) == len(c.params) or (c.rest is not None and len(args) >= len(c.params)):
                    return self.apply(c, args, k)
            return ("raise", self.err("case-lambda: no matching clause", kind="arity"), False, k)
        if isinstance(f, Prim):
            if len(args) < f.lo or (f.hi is not None and len(args) > f.hi):
                return ("raise", self.err("wrong number of arguments", kind="arity"), False, k)
            try:
                v = f.fn(*args)
            except PrimError as e:
                return ("raise", self.err(str(e)), False, k)
            return ("ret", v, k)
        if isinstance(f, Special):
            return getattr(self, "sp_" + f.name)(args, k)
        if isinstance(f, Cont):
            v = args[0] if len(args) == 1 else Values(args)
            return self.throw(f, v)
        if isinstance(f, Param):
            if args:
                return ("raise", self.err("parameter called with arguments", kind="arity"), False, k)
            p = self.dyn.params
            while p is not None:
                if p[0] is f:
                    return ("ret", p[1][0], k)
                p = p[2]
            return ("ret", f.init, k)
        return ("raise", self.err("non procedure application", f, kind="apply"), False, k)

    # continuation invocation with dynamic-wind: run after thunks innermost-first up to the common ancestor,
    # then before thunks outermost-first, then install the captured dynamic environment.
    def throw(self, cont, v):
        src = self.dyn.winds
        dst = cont.dyn.winds
        unwind = []
        rewind = []
        a, b = src, dst
        while wind_depth(a) > wind_depth(b):
            unwind.append(a)
            a = a.parent
        while wind_depth(b) > wind_depth(a):
            rewind.append(b)
            b = b.parent
        while a is not b:
            unwind.append(a)
            a = a.parent
            rewind.append(b)
            b = b.parent
        rewind.reverse()

        def run(i):
            if i < len(unwind):
                w = unwind[i]
                # the after thunk runs in the dynamic environment of the dynamic-wind call
                self.dyn = w.dyn0 if w.dyn0 is not None else self.dyn.with_(winds=w.parent)
                return ("apply", w.after, [], ("fn", lambda _v, _: run(i + 1), None))
            j = i - len(unwind)
            if j < len(rewind):
                w = rewind[j]
                self.dyn = w.dyn0 if w.dyn0 is not None else self.dyn.with_(winds=w.parent)
                return ("apply", w.before, [], ("fn", lambda _v, _: run(i + 1), None))
            self.dyn = cont.dyn
            return ("ret", v, cont.k)
        return run(0)

    def sp_apply(self, args, k):
        if len(args) < 2 and not (len(args) == 1):
            return ("raise", self.err("apply: too few arguments", kind="arity"), False, k)
        if len(args) == 1:
            return ("apply", args[0], [], k)
        last = args[-1]
        if not is_list(last):
            return ("raise", self.err("apply: last argument is not a list"), False, k)
        return ("apply", args[0], list(args[1:-1]) + pylist(last), k)

    def sp_values(self, args, k):
        if len(args) == 1:
            return ("ret", args[0], k)
        return ("ret", Values(args), k)

    def sp_callwithvalues(self, args, k):
        producer, consumer = args

        def got(v, _):
            vals = list(v.vals) if isinstance(v, Values) else [v]
            return ("apply", consumer, vals, k)
        return ("apply", producer, [], ("fn", got, None))

    def sp_callcc(self, args, k):
        return ("apply", args[0], [Cont(k, self.dyn)], k)

    def sp_dynamicwind(self, args, k):
        before, thunk, after = args
        d0 = self.dyn

        def after_before(_v, _):
            w = Wind(before, after, d0.winds, d0)
            self.dyn = d0.with_(winds=w)

            def after_thunk(v, _2):
                self.dyn = d0

                def done(_v2, _3):
                    return ("ret", v, k)
                return ("apply", after, [], ("fn", done, None))
            return ("apply", thunk, [], ("fn", after_thunk, None))
        return ("apply", before, [], ("fn", after_before, None))

    def sp_makeparameter(self, args, k):
        if len(args) == 1:
            return ("ret", Param(args[0], None), k)
        return ("apply", args[1], [args[0]], ("fn", lambda v, _: ("ret", Param(self.single(v), args[1]), k), None))

    def sp_withexceptionhandler(self, args, k):
        handler, thunk = args
        d0 = self.dyn
        self.dyn = d0.with_(handlers=(handler, d0.handlers))
        return ("apply", thunk, [], ("dyn", d0, k))

    def sp_raise(self, args, k):
        return ("raise", args[0], False, k)

    def sp_raisecontinuable(self, args, k):
        return ("raise", args[0], True, k)

    def sp_error(self, args, k):
        return ("raise", ErrObj(args[0], lst(*args[1:]), "user"), False, k)

    def sp_map(self, args, k):
        f = args[0]
        lists = [pylist(a) for a in args[1:]] if all(is_list(a) for a in args[1:]) else None
        if lists is None:
            return ("raise", self.err("map: not a list"), False, k)
        n = min(len(l) for l in lists)

        def step(i, acc):
            if i == n:
                return ("ret", lst(*acc), k)
            return ("apply", f, [l[i] for l in lists], ("fn", lambda v, _: step(i + 1, acc + [self.single(v)]), None))
        return step(0, [])

    def sp_foreach(self, args, k):
        f = args[0]
        if not all(is_list(a) for a in args[1:]):
            return ("raise", self.err("for-each: not a list"), False, k)
        lists = [pylist(a) for a in args[1:]]
        n = min(len(l) for l in lists)

        def step(i):
            if i == n:
                return ("ret", VOID, k)
            return ("apply", f, [l[i] for l in lists], ("fn", lambda v, _: step(i + 1), None))
        return step(0)

    def sp_vectormap(self, args, k):
        f = args[0]
        vs = [a.items for a in args[1:]]
        n = min(len(v) for v in vs)

        def step(i, acc):
            if i == n:
                return ("ret", Vec(acc), k)
            return ("apply", f, [v[i] for v in vs], ("fn", lambda v, _: step(i + 1, acc + [self.single(v)]), None))
        return step(0, [])

    def sp_display(self, args, k):
        self.out.append(write(args[0], display=True))
        return ("ret", VOID, k)

    def sp_write(self, args, k):
        self.out.append(write(args[0]))
        return ("ret", VOID, k)

    def sp_newline(self, args, k):
        self.out.append("\n")
        return ("ret", VOID, k)

    # -------- raise: deliver to the handler stack
    def do_raise(self, obj, continuable, k):
        hs = self.dyn.handlers
        if hs is None:
            raise SchemeError(obj)
        h, outer = hs
        d1 = self.dyn
        if isinstance(h, GuardHandler):
            return self.guard_handle(h, obj, continuable, k, d1, outer)
        # the handler runs with the outer handler stack installed, in the dynamic environment of the raise
        self.dyn = d1.with_(handlers=outer)

        def returned(v, _):
            if continuable:
                self.dyn = d1
                return ("ret", v, k)
            # handler returned from a non-continuable raise: secondary exception in the handler's dynamic environment
            return ("raise", ErrObj("exception handler returned", lst(obj), "secondary"), False, k)
        return ("apply", h, [obj], ("fn", returned, None))

    def guard_handle(self, h, obj, continuable, k_raise, d1, outer):
        # 1. escape to the guard's continuation: after thunks between the raise point and the guard run now
        def in_guard(_v, _):
            genv = Env(h.env)
            genv.vars[h.var] = obj
            clauses = pylist(h.clauses)

            def step(i):
                if i == len(clauses):
                    # 2. no clause matched: re-enter the raise context (before thunks run again) and
                    #    raise-continuable to the outer handler there
                    back = Cont(("fn", lambda _v2, _3: reraise(), None), d1.with_(handlers=outer))
                    return self.throw(back, VOID)
                c = clauses[i]
                if c.car is S("else"):
                    return self.eval_seq(c.cdr, genv, h.k)

                def got(v, _2):
                    v = self.single(v)
                    if v is False:
                        return step(i + 1)
                    if c.cdr is NIL:
                        return ("ret", v, h.k)
                    if c.cdr.car is S("=>"):
                        return ("eval", c.cdr.cdr.car, genv, ("fn", lambda f, _3: ("apply", self.single(f), [v], h.k), None))
                    return self.eval_seq(c.cdr, genv, h.k)
                return ("eval", c.car, genv, ("fn", got, None))
            return step(0)

        def reraise():
            # now in dynamic environment d1 with handlers = outer
            def returned(v, _):
                if continuable:
                    self.dyn = d1
                    return ("ret", v, k_raise)
                return ("raise", ErrObj("exception handler returned", lst(obj), "secondary"), False, k_raise)
            return ("raise", obj, True, ("fn", returned, None))
        return self.throw(Cont(("fn", in_guard, None), h.dyn), VOID)


class GuardHandler:
    __slots__ = ("var", "clauses", "env", "k", "dyn")

    def __init__(self, var, clauses, env, k, dyn):
        self.var, self.clauses, self.env, self.k, self.dyn = var, clauses, env, k, dyn


class CaseLambda:
    __slots__ = ("clauses",)

    def __init__(self, clauses):
        self.clauses = clauses


_SF = {
    "quote": "quote", "if": "if", "lambda": "lambda", "define": "define", "set!": "set", "begin": "begin",
    "let": "let", "let*": "letstar", "letrec": "letrec", "letrec*": "letrec", "cond": "cond", "case": "case",
    "and": "and", "or": "or", "when": "when", "unless": "unless", "do": "do", "quasiquote": "quasiquote",
    "let-values": "letvalues", "let*-values": "letvalues", "define-values": "definevalues",
    "case-lambda": "caselambda", "parameterize": "parameterize", "guard": "guard",
}


class PrimError(Exception):
    pass


def eqv(a, b):
    if isinstance(a, bool) or isinstance(b, bool):
        return a is b
    if isinstance(a, int) and isinstance(b, int):
        return a == b
    if isinstance(a, float) and isinstance(b, float):
        return a == b
    if type(a).__name__ == "Fraction" and type(b).__name__ == "Fraction":
        return a == b
    if isinstance(a, Char) and isinstance(b, Char):
        return a.c == b.c
    if isinstance(a, MStr) and isinstance(b, MStr):
        return a is b
    return a is b


def equal(a, b):
    if eqv(a, b):
        return True
    if isinstance(a, Pair) and isinstance(b, Pair):
        while isinstance(a, Pair) and isinstance(b, Pair):
            if not equal(a.car, b.car):
                return False
            a, b = a.cdr, b.cdr
        return equal(a, b)
    if isinstance(a, Vec) and isinstance(b, Vec):
        return len(a.items) == len(b.items) and all(equal(x, y) for x, y in zip(a.items, b.items))
    if isinstance(a, MStr) and isinstance(b, MStr):
        return a.s == b.s
    return False


def _num(x):
    if isinstance(x, bool) or not (isinstance(x, (int, float)) or type(x).__name__ == "Fraction"):
        raise PrimError("not a number")
    return x


def _norm(x):
    # exact results are integers when the denominator is 1
    if type(x).__name__ == "Fraction" and x.denominator == 1:
        return int(x)
    return x


def install_primitives(m):
    g = m.genv.vars

    def prim(name, lo, hi):
        def deco(fn):
            g[S(name)] = Prim(name, fn, lo, hi)
            return fn
        return deco

    def arith(name, fn, unit, lo):
        def f(*args):
            xs = [_num(a) for a in args]
            return _norm(fn(xs))
        g[S(name)] = Prim(name, f, lo, None)

    arith("+", lambda xs: sum(xs), 0, 0)
    arith("*", lambda xs: __import__("math").prod(xs), 1, 0)
    arith("-", lambda xs: -xs[0] if len(xs) == 1 else xs[0] - sum(xs[1:]), 0, 1)

    def _div(xs):
        from fractions import Fraction as _F
        def d(a, b):
            if isinstance(a, float) or isinstance(b, float):
                return a / b
            if b == 0:
                raise PrimError("divide by zero")
            return _F(a) / _F(b)
        if len(xs) == 1:
            return d(1, xs[0])
        r = xs[0]
        for y in xs[1:]:
            r = d(r, y)
        return r
    arith("/", _div, 1, 1)

    def cmp(name, op):
        def f(*args):
            xs = [_num(a) for a in args]
            return all(op(a, b) for a, b in zip(xs, xs[1:]))
        g[S(name)] = Prim(name, f, 1, None)
    cmp("=", lambda a, b: a == b)
    cmp("<", lambda a, b: a < b)
    cmp(">", lambda a, b: a > b)
    cmp("<=", lambda a, b: a <= b)
    cmp(">=", lambda a, b: a >= b)

    @prim("quotient", 2, 2)
    def _(a, b):
        a, b = _num(a), _num(b)
        if b == 0:
            raise PrimError("divide by zero")
        q = abs(a) // abs(b)
        return q if (a < 0) == (b < 0) else -q

    @prim("remainder", 2, 2)
    def _(a, b):
        a, b = _num(a), _num(b)
        if b == 0:
            raise PrimError("divide by zero")
        q = abs(a) // abs(b)
        q = q if (a < 0) == (b < 0) else -q
        return a - b * q

    @prim("modulo", 2, 2)
    def _(a, b):
        a, b = _num(a), _num(b)
        if b == 0:
            raise PrimError("divide by zero")
        return a % b

    g[S("abs")] = Prim("abs", lambda a: abs(_num(a)), 1, 1)
    g[S("min")] = Prim("min", lambda *a: min(_num(x) for x in a), 1, None)
    g[S("max")] = Prim("max", lambda *a: max(_num(x) for x in a), 1, None)
    g[S("zero?")] = Prim("zero?", lambda a: _num(a) == 0, 1, 1)
    g[S("positive?")] = Prim("positive?", lambda a: _num(a) > 0, 1, 1)
    g[S("negative?")] = Prim("negative?", lambda a: _num(a) < 0, 1, 1)
    g[S("even?")] = Prim("even?", lambda a: _num(a) % 2 == 0, 1, 1)
    g[S("odd?")] = Prim("odd?", lambda a: _num(a) % 2 == 1, 1, 1)
    g[S("not")] = Prim("not", lambda a: a is False, 1, 1)
    g[S("eq?")] = Prim("eq?", lambda a, b: eqv(a, b), 2, 2)
    g[S("eqv?")] = Prim("eqv?", lambda a, b: eqv(a, b), 2, 2)
    g[S("equal?")] = Prim("equal?", lambda a, b: equal(a, b), 2, 2)
    g[S("cons")] = Prim("cons", lambda a, b: Pair(a, b), 2, 2)

    def car(p):
        if not isinstance(p, Pair):
            raise PrimError("car: not a pair")
        return p.car

    def cdr(p):
        if not isinstance(p, Pair):
            raise PrimError("cdr: not a pair")
        return p.cdr
    g[S("car")] = Prim("car", car, 1, 1)
    g[S("cdr")] = Prim("cdr", cdr, 1, 1)
    g[S("cadr")] = Prim("cadr", lambda p: car(cdr(p)), 1, 1)
    g[S("cddr")] = Prim("cddr", lambda p: cdr(cdr(p)), 1, 1)
    g[S("caar")] = Prim("caar", lambda p: car(car(p)), 1, 1)
    g[S("cdar")] = Prim("cdar", lambda p: cdr(car(p)), 1, 1)

    def setcar(p, v):
        if not isinstance(p, Pair):
            raise PrimError("set-car!: not a pair")
        p.car = v
        return VOID

    def setcdr(p, v):
        if not isinstance(p, Pair):
            raise PrimError("set-cdr!: not a pair")
        p.cdr = v
        return VOID
    g[S("set-car!")] = Prim("set-car!", setcar, 2, 2)
    g[S("set-cdr!")] = Prim("set-cdr!", setcdr, 2, 2)
    g[S("list")] = Prim("list", lambda *a: lst(*a), 0, None)

    def length(l):
        if not is_list(l):
            raise PrimError("length: not a list")
        return len(pylist(l))
    g[S("length")] = Prim("length", length, 1, 1)

    def append(*ls):
        if not ls:
            return NIL
        res = ls[-1]
        for l in reversed(ls[:-1]):
            if not is_list(l):
                raise PrimError("append: not a list")
            res = lst(*pylist(l), tail=res)
        return res
    g[S("append")] = Prim("append", append, 0, None)

    def reverse(l):
        if not is_list(l):
            raise PrimError("reverse: not a list")
        return lst(*reversed(pylist(l)))
    g[S("reverse")] = Prim("reverse", reverse, 1, 1)

    def list_tail(l, k):
        for _ in range(_num(k)):
            if not isinstance(l, Pair):
                raise PrimError("list-tail: list too short")
            l = l.cdr
        return l
    g[S("list-tail")] = Prim("list-tail", list_tail, 2, 2)
    g[S("list-ref")] = Prim("list-ref", lambda l, k: car(list_tail(l, k)), 2, 2)

    def memq(x, l):
        while isinstance(l, Pair):
            if eqv(x, l.car):
                return l
            l = l.cdr
        return False
    g[S("memq")] = Prim("memq", memq, 2, 2)
    g[S("memv")] = Prim("memv", memq, 2, 2)

    def member(x, l):
        while isinstance(l, Pair):
            if equal(x, l.car):
                return l
            l = l.cdr
        return False
    g[S("member")] = Prim("member", member, 2, 2)

    def assq(x, l):
        while isinstance(l, Pair):
            if isinstance(l.car, Pair) and eqv(x, l.car.car):
                return l.car
            l = l.cdr
        return False
    g[S("assq")] = Prim("assq", assq, 2, 2)
    g[S("assv")] = Prim("assv", assq, 2, 2)

    def assoc(x, l):
        while isinstance(l, Pair):
            if isinstance(l.car, Pair) and equal(x, l.car.car):
                return l.car
            l = l.cdr
        return False
    g[S("assoc")] = Prim("assoc", assoc, 2, 2)
    g[S("null?")] = Prim("null?", lambda a: a is NIL, 1, 1)
    g[S("pair?")] = Prim("pair?", lambda a: isinstance(a, Pair), 1, 1)
    g[S("list?")] = Prim("list?", lambda a: is_list(a), 1, 1)
    g[S("number?")] = Prim("number?", lambda a: isinstance(a, int) and not isinstance(a, bool), 1, 1)
    g[S("integer?")] = Prim("integer?", lambda a: isinstance(a, int) and not isinstance(a, bool), 1, 1)
    g[S("symbol?")] = Prim("symbol?", lambda a: isinstance(a, Sym), 1, 1)
    g[S("string?")] = Prim("string?", lambda a: isinstance(a, MStr), 1, 1)
    g[S("boolean?")] = Prim("boolean?", lambda a: isinstance(a, bool), 1, 1)
    g[S("vector?")] = Prim("vector?", lambda a: isinstance(a, Vec), 1, 1)
    g[S("procedure?")] = Prim("procedure?", lambda a: isinstance(a, (Closure, Prim, Special, Cont, Param, CaseLambda)), 1, 1)
    g[S("vector")] = Prim("vector", lambda *a: Vec(a), 0, None)
    g[S("make-vector")] = Prim("make-vector", lambda n, fill=VOID: Vec([fill] * _num(n)), 1, 2)

    def vref(v, i):
        if not isinstance(v, Vec):
            raise PrimError("vector-ref: not a vector")
        i = _num(i)
        if not 0 <= i < len(v.items):
            raise PrimError("vector-ref: index out of range")
        return v.items[i]

    def vset(v, i, x):
        if not isinstance(v, Vec):
            raise PrimError("vector-set!: not a vector")
        i = _num(i)
        if not 0 <= i < len(v.items):
            raise PrimError("vector-set!: index out of range")
        v.items[i] = x
        return VOID
    g[S("vector-ref")] = Prim("vector-ref", vref, 2, 2)
    g[S("vector-set!")] = Prim("vector-set!", vset, 3, 3)
    g[S("vector-length")] = Prim("vector-length", lambda v: len(v.items), 1, 1)
    g[S("vector->list")] = Prim("vector->list", lambda v: lst(*v.items), 1, 1)
    g[S("list->vector")] = Prim("list->vector", lambda l: Vec(pylist(l)), 1, 1)
    g[S("number->string")] = Prim("number->string", lambda n: MStr(str(_num(n))), 1, 1)
    g[S("symbol->string")] = Prim("symbol->string", lambda s: MStr(str(s)), 1, 1)
    g[S("string-append")] = Prim("string-append", lambda *a: MStr("".join(x.s for x in a)), 0, None)
    g[S("error-object?")] = Prim("error-object?", lambda a: isinstance(a, ErrObj), 1, 1)
    g[S("error-object-message")] = Prim("error-object-message", lambda a: a.msg if isinstance(a.msg, MStr) else MStr(str(a.msg)), 1, 1)
    g[S("error-object-irritants")] = Prim("error-object-irritants", lambda a: a.irritants, 1, 1)
    for name, sp in [("apply", "apply"), ("values", "values"), ("call-with-values", "callwithvalues"),
                     ("call/cc", "callcc"), ("call-with-current-continuation", "callcc"),
                     ("dynamic-wind", "dynamicwind"), ("make-parameter", "makeparameter"),
                     ("with-exception-handler", "withexceptionhandler"), ("raise", "raise"),
                     ("raise-continuable", "raisecontinuable"), ("error", "error"), ("map", "map"),
                     ("for-each", "foreach"), ("vector-map", "vectormap"), ("display", "display"), ("write", "write"),
                     ("newline", "newline")]:
        g[S(name)] = Special(sp)


def run(text, step_limit=2000000):
    """evaluate program text; returns (output string, [(ok, printed value or error tag)...])"""
    m = Machine(step_limit)
    forms = read_all(text)
    res = m.run_program(forms)
    return "".join(m.out), res, m


if __name__ == "__main__":
    out, res, _ = run(sys.stdin.read())
    sys.stdout.write(out)
    for ok, v in res:
        print(("=> " if ok else "!! ") + (write(v) if not isinstance(v, ErrObj) else "#<error %s>" % write(v.msg, True)))
