"""C18(c): pure SRFI 1 / SRFI 133 procedures on ALL lists / vectors of length <= 4 over {0,1,2}.

Each entry: (name, arity, scheme expression over fresh copies `a` (and `b`), python model, applicability).
The model returns a Python value rendered with containers.swrite (lists -> Scheme lists, vectors via Vec, str = symbol);
multiple values are returned as a list (the Scheme side wraps the call in call-with-values ... list).
A model returning NA means "the SRFI calls this an error / leaves it open": the line is not compared.
"""
import itertools
from .containers import swrite

NA = object()


class Vec(list):
    pass


def render(x):
    if isinstance(x, Vec):
        return "#(" + " ".join(render(e) for e in x) + ")"
    if x is True:
        return "#t"
    if x is False:
        return "#f"
    if isinstance(x, (list, tuple)):
        return "(" + " ".join(render(e) for e in x) + ")"
    return str(x)


def all_seqs(maxlen=4, alpha=(0, 1, 2)):
    out = []
    for n in range(maxlen + 1):
        out += [list(t) for t in itertools.product(alpha, repeat=n)]
    return out


SEQS = all_seqs()
odd = lambda x: x % 2 == 1


def mv(expr):
    return "(call-with-values (lambda () %s) list)" % expr


L1 = []     # SRFI 1
V1 = []     # SRFI 133


def L(name, arity, scm, fn):
    L1.append((name, arity, scm, fn))


def V(name, arity, scm, fn):
    V1.append((name, arity, scm, fn))


def _first(pred, l, default=False):
    for x in l:
        if pred(x):
            return x
    return default


def _span(pred, l):
    i = 0
    while i < len(l) and pred(l[i]):
        i += 1
    return i


def _dedup(l, eq=lambda x, y: x == y):
    out = []
    for x in l:
        if not any(eq(y, x) for y in out):
            out.append(x)
    return out


# ---------------------------------------------------------------- SRFI 1, one list
for i in range(5):
    L("take %d" % i, 1, "(take a %d)" % i, lambda a, i=i: a[:i] if i <= len(a) else NA)
    L("drop %d" % i, 1, "(drop a %d)" % i, lambda a, i=i: a[i:] if i <= len(a) else NA)
    L("take-right %d" % i, 1, "(take-right a %d)" % i, lambda a, i=i: a[len(a) - i:] if i <= len(a) else NA)
    L("drop-right %d" % i, 1, "(drop-right a %d)" % i, lambda a, i=i: a[:len(a) - i] if i <= len(a) else NA)
    L("take! %d" % i, 1, "(take! a %d)" % i, lambda a, i=i: a[:i] if i <= len(a) else NA)
    L("drop-right! %d" % i, 1, "(drop-right! a %d)" % i, lambda a, i=i: a[:len(a) - i] if i <= len(a) else NA)
    L("split-at %d" % i, 1, mv("(split-at a %d)" % i), lambda a, i=i: [a[:i], a[i:]] if i <= len(a) else NA)
    L("split-at! %d" % i, 1, mv("(split-at! a %d)" % i), lambda a, i=i: [a[:i], a[i:]] if i <= len(a) else NA)
    L("list-tabulate %d" % i, 0, "(list-tabulate %d (lambda (i) (* i i)))" % i, lambda i=i: [j * j for j in range(i)])
    L("iota %d" % i, 0, "(list (iota %d) (iota %d 1) (iota %d 0 2) (iota %d 5 -1))" % (i, i, i, i),
      lambda i=i: [list(range(i)), list(range(1, i + 1)), [2 * j for j in range(i)], [5 - j for j in range(i)]])
    L("make-list %d" % i, 0, "(make-list %d 7)" % i, lambda i=i: [7] * i)
L("last", 1, "(last a)", lambda a: a[-1] if a else NA)
L("last-pair", 1, "(last-pair a)", lambda a: a[-1:] if a else NA)
L("length+", 1, "(list (length+ a) (length+ (circular-list 1 2)))", lambda a: [len(a), False])
L("first..fourth", 1, "(list (first a) (second a) (third a) (fourth a))", lambda a: a[:4] if len(a) >= 4 else NA)
L("car+cdr", 1, mv("(car+cdr a)"), lambda a: [a[0], a[1:]] if a else NA)
L("predicates", 1, "(list (proper-list? a) (dotted-list? a) (circular-list? a) (null-list? a) (not-pair? a)"
  " (proper-list? (cons* 1 2 3)) (dotted-list? (cons* 1 2 3)) (circular-list? (apply circular-list 9 a)) (dotted-list? 5))",
  lambda a: [True, False, False, not a, not a, False, True, True, True])
L("reverse!", 1, "(reverse! a)", lambda a: a[::-1])
L("append-reverse (9)", 1, "(append-reverse a (list 9))", lambda a: a[::-1] + [9])
L("append-reverse! (9)", 1, "(append-reverse! a (list 9))", lambda a: a[::-1] + [9])
L("list-copy", 1, "(list-copy a)", lambda a: a)
L("cons* 1 2 a", 1, "(list (cons* 1 2 a) (cons* a) (xcons a 1))", lambda a: [[1, 2] + a, a, [1] + a])
L("count odd?", 1, "(count odd? a)", lambda a: sum(1 for x in a if odd(x)))
L("fold cons", 1, "(fold cons '() a)", lambda a: a[::-1])
L("fold-right cons", 1, "(fold-right cons '() a)", lambda a: a)
L("fold +", 1, "(fold + 0 a)", lambda a: sum(a))


def _reduce(f, ident, a):
    if not a:
        return ident
    acc = a[0]
    for x in a[1:]:
        acc = f(x, acc)
    return acc


def _reduce_right(f, ident, a):
    if not a:
        return ident
    acc = a[-1]
    for x in a[-2::-1]:
        acc = f(x, acc)
    return acc


L("reduce + max -", 1, "(list (reduce + 0 a) (reduce max 0 a) (reduce - 0 a))",
  lambda a: [_reduce(lambda x, y: x + y, 0, a), _reduce(max, 0, a), _reduce(lambda x, y: x - y, 0, a)])
# ridentity must be a right identity of f (SRFI 1), so only such pairs are used: (+,0) (-,0) (append,())
L("reduce-right + - append", 1, "(list (reduce-right + 0 a) (reduce-right - 0 a) (reduce-right append '() (map list a)))",
  lambda a: [_reduce_right(lambda x, y: x + y, 0, a), _reduce_right(lambda x, y: x - y, 0, a), a])
L("pair-fold", 1, "(pair-fold (lambda (p acc) (cons (length p) acc)) '() a)", lambda a: list(range(1, len(a) + 1)))
L("pair-fold-right", 1, "(pair-fold-right (lambda (p acc) (cons (length p) acc)) '() a)", lambda a: list(range(len(a), 0, -1)))
L("pair-for-each", 1, "(let ((acc '())) (pair-for-each (lambda (p) (set! acc (cons (car p) acc))) a) acc)", lambda a: a[::-1])
L("append-map", 1, "(append-map (lambda (x) (list x (+ x 10))) a)", lambda a: [y for x in a for y in (x, x + 10)])
L("append-map!", 1, "(append-map! (lambda (x) (list x (+ x 10))) a)", lambda a: [y for x in a for y in (x, x + 10)])
L("filter-map", 1, "(filter-map (lambda (x) (and (odd? x) (* x 10))) a)", lambda a: [x * 10 for x in a if odd(x)])
L("map-in-order / map!", 1, "(list (map-in-order (lambda (x) (+ x 1)) a) (map! (lambda (x) (* x 2)) (list-copy a)))",
  lambda a: [[x + 1 for x in a], [2 * x for x in a]])
for nm in ("filter", "filter!"):
    L("%s odd?" % nm, 1, "(%s odd? a)" % nm, lambda a: [x for x in a if odd(x)])
for nm in ("remove", "remove!"):
    L("%s odd?" % nm, 1, "(%s odd? a)" % nm, lambda a: [x for x in a if not odd(x)])
for nm in ("partition", "partition!"):
    L("%s odd?" % nm, 1, mv("(%s odd? a)" % nm), lambda a: [[x for x in a if odd(x)], [x for x in a if not odd(x)]])
L("find / find-tail", 1, "(list (find odd? a) (find-tail odd? a) (find (lambda (x) (= x 2)) a))",
  lambda a: [_first(odd, a), (a[[odd(x) for x in a].index(True):] if any(map(odd, a)) else False),
             _first(lambda x: x == 2, a)])
L("any / every", 1, "(list (any (lambda (x) (and (odd? x) (+ x 10))) a) (every (lambda (x) (and (odd? x) (+ x 10))) a)"
  " (any odd? a) (every odd? a))",
  lambda a: [(_first(odd, a) + 10) if any(map(odd, a)) else False,
             (True if not a else (a[-1] + 10 if all(map(odd, a)) else False)), any(map(odd, a)), all(map(odd, a))])
L("list-index", 1, "(list (list-index odd? a) (list-index (lambda (x) (= x 2)) a))",
  lambda a: [([odd(x) for x in a].index(True) if any(map(odd, a)) else False), (a.index(2) if 2 in a else False)])
for nm in ("take-while", "take-while!"):
    L("%s odd?" % nm, 1, "(%s odd? a)" % nm, lambda a: a[:_span(odd, a)])
L("drop-while odd?", 1, "(drop-while odd? a)", lambda a: a[_span(odd, a):])
for nm in ("span", "span!"):
    L("%s odd?" % nm, 1, mv("(%s odd? a)" % nm), lambda a: [a[:_span(odd, a)], a[_span(odd, a):]])
for nm in ("break", "break!"):
    L("%s odd?" % nm, 1, mv("(%s odd? a)" % nm),
      lambda a: [a[:_span(lambda x: not odd(x), a)], a[_span(lambda x: not odd(x), a):]])
for nm in ("delete", "delete!"):
    L("%s 1" % nm, 1, "(list (%s 1 (list-copy a)) (%s 1 (list-copy a) =) (%s 1 (list-copy a) <) (%s 1 (list-copy a) eq?))" % (nm, nm, nm, nm),
      lambda a: [[x for x in a if x != 1], [x for x in a if x != 1], [x for x in a if not 1 < x], [x for x in a if x != 1]])
for nm in ("delete-duplicates", "delete-duplicates!"):
    L(nm, 1, "(list (%s (list-copy a)) (%s (list-copy a) =) (%s (list-copy a) (lambda (x y) (= (quotient x 2) (quotient y 2)))))" % (nm, nm, nm),
      lambda a: [_dedup(a), _dedup(a), _dedup(a, lambda x, y: x // 2 == y // 2)])
L("alists", 1, "(let ((al (map (lambda (x) (cons x (* x 10))) a)))"
  " (list (map car (alist-delete 1 al)) (map car (alist-delete 1 al =)) (map cdr (alist-copy al))"
  "       (map car (alist-cons 5 6 al)) (map car (alist-delete! 0 (alist-copy al)))))",
  lambda a: [[x for x in a if x != 1], [x for x in a if x != 1], [10 * x for x in a], [5] + a, [x for x in a if x != 0]])
L("zip / unzip", 1, "(list (zip a a) (unzip1 (zip a a)) (call-with-values (lambda () (unzip2 (zip a a))) list))",
  lambda a: [[[x, x] for x in a], a, [a, a]])
L("unfold", 1, "(list (unfold null? car cdr a) (unfold-right null? car cdr a) (unfold null? car cdr a (lambda (x) (list 9)))"
  " (unfold-right null? car cdr a (list 9)))", lambda a: [a, a[::-1], a + [9], a[::-1] + [9]])
L("concatenate", 1, "(list (concatenate (list a (list 9) a)) (concatenate! (list (list-copy a) (list) (list 9) (list-copy a))) (append! (list-copy a) (list) (list-copy a)))",
  lambda a: [a + [9] + a, a + [9] + a, a + a])
L("lset-adjoin", 1, "(list (lset-adjoin = a 0) (lset-adjoin = a 3 3 4))",
  lambda a: [a if 0 in a else [0] + a, "sorted"])          # order of new elements unspecified: second compared sorted


# ---------------------------------------------------------------- SRFI 1, two lists
def _zipmin(a, b):
    return list(zip(a, b))


L("append", 2, "(list (append a b) (append! (list-copy a) b))", lambda a, b: [a + b, a + b])
L("append-reverse 2", 2, "(list (append-reverse a b) (append-reverse! (list-copy a) b))", lambda a, b: [a[::-1] + b] * 2)
L("list=", 2, "(list (list= = a b) (list= = a b a) (list= = a a b) (list= =) (list= = a))",
  lambda a, b: [a == b, a == b, a == b, True, True])
L("lset<= / lset=", 2, "(list (lset<= = a b) (lset= = a b) (lset<= = a) (lset= = a b a))",
  lambda a, b: [set(a) <= set(b), set(a) == set(b), True, set(a) == set(b)])
L("lset-intersection", 2, "(list (lset-intersection = a b) (lset-intersection! = (list-copy a) b))",
  lambda a, b: [[x for x in a if x in b]] * 2)
L("lset-difference", 2, "(list (lset-difference = a b) (lset-difference! = (list-copy a) b))",
  lambda a, b: [[x for x in a if x not in b]] * 2)
L("lset-diff+intersection", 2, mv("(lset-diff+intersection = a b)"),
  lambda a, b: [[x for x in a if x not in b], [x for x in a if x in b]])
L("fold 2", 2, "(fold cons* '() a b)", lambda a, b: [z for x, y in _zipmin(a, b)[::-1] for z in (x, y)])
L("fold-right 2", 2, "(fold-right cons* '() a b)", lambda a, b: [z for x, y in _zipmin(a, b) for z in (x, y)])
L("pair-fold 2", 2, "(pair-fold (lambda (p q acc) (cons (+ (length p) (* 10 (length q))) acc)) '() a b)",
  lambda a, b: [(len(a) - i) + 10 * (len(b) - i) for i in range(min(len(a), len(b)))][::-1])
L("append-map 2", 2, "(append-map (lambda (x y) (list x y)) a b)", lambda a, b: [z for x, y in _zipmin(a, b) for z in (x, y)])
L("filter-map 2", 2, "(filter-map (lambda (x y) (and (< x y) (+ x y))) a b)", lambda a, b: [x + y for x, y in _zipmin(a, b) if x < y])
L("count 2", 2, "(count < a b)", lambda a, b: sum(1 for x, y in _zipmin(a, b) if x < y))
L("any / every 2", 2, "(list (any (lambda (x y) (and (< x y) (list x y))) a b) (every (lambda (x y) (and (<= x y) (list x y))) a b))",
  lambda a, b: [_first(lambda p: p[0] < p[1], [list(p) for p in _zipmin(a, b)]),
                (True if not _zipmin(a, b) else (list(_zipmin(a, b)[-1]) if all(x <= y for x, y in _zipmin(a, b)) else False))])
L("list-index 2", 2, "(list-index < a b)",
  lambda a, b: ([x < y for x, y in _zipmin(a, b)].index(True) if any(x < y for x, y in _zipmin(a, b)) else False))
L("zip 2", 2, "(zip a b)", lambda a, b: [[x, y] for x, y in _zipmin(a, b)])
L("lset-union (sorted)", 2, "(lset-union = a b)", lambda a, b: "sorted")
L("lset-xor (sorted)", 2, "(lset-xor = a b)", lambda a, b: "sorted")


def lset_union_model(a, b):
    out = list(a)
    for x in b:
        if x not in out:
            out.append(x)
    return sorted(out)


SORTED_MODELS = {
    "lset-adjoin": lambda a: [a if 0 in a else [0] + a, sorted(a + [x for x in (3, 4) if x not in a])],
    "lset-union (sorted)": lambda a, b: lset_union_model(a, b),
    # xor is only compared on duplicate-free operands (the SRFI's examples; multiplicities are otherwise unclear)
    "lset-xor (sorted)": lambda a, b: sorted(set(a) ^ set(b)) if len(set(a)) == len(a) and len(set(b)) == len(b) else NA,
}

# ---------------------------------------------------------------- SRFI 133, one vector
vl = lambda a: Vec(a)
V("vector-copy / reverse-copy", 1,
  "(list (vector-copy a) (vector-reverse-copy a) (vector-reverse-copy a (quotient (vector-length a) 2))"
  " (vector-reverse-copy a 0 (quotient (vector-length a) 2)))",
  lambda a: [vl(a), vl(a[::-1]), vl(a[len(a) // 2:][::-1]), vl(a[:len(a) // 2][::-1])])
V("vector-append / concatenate", 1, "(list (vector-append a (vector 9) a) (vector-concatenate (list a a)) (vector-concatenate '()))",
  lambda a: [vl(a + [9] + a), vl(a + a), vl([])])
V("vector-append-subvectors", 1,
  "(vector-append-subvectors a 0 (vector-length a) a (quotient (vector-length a) 2) (vector-length a) a 0 (quotient (vector-length a) 2))",
  lambda a: vl(a + a[len(a) // 2:] + a[:len(a) // 2]))
V("vector-empty? / vector=", 1, "(list (vector-empty? a) (vector= = a a) (vector= = a) (vector= =) (vector= = a (vector-copy a) a))",
  lambda a: [not a, True, True, True, True])
V("vector-fold", 1, "(list (vector-fold (lambda (acc x) (cons x acc)) '() a) (vector-fold-right (lambda (acc x) (cons x acc)) '() a))",
  lambda a: [a[::-1], a])
V("vector-map!", 1, "(let ((c (vector-copy a))) (vector-map! (lambda (x) (+ x 10)) c) c)", lambda a: vl([x + 10 for x in a]))
V("vector-count", 1, "(vector-count odd? a)", lambda a: sum(1 for x in a if odd(x)))
V("vector-cumulate", 1, "(list (vector-cumulate + 0 a) (vector-cumulate (lambda (acc x) (cons x acc)) '() a))",
  lambda a: [vl([sum(a[:i + 1]) for i in range(len(a))]), vl([a[:i + 1][::-1] for i in range(len(a))])])


def _vindex(pred, a, right=False):
    idx = [i for i, x in enumerate(a) if pred(x)]
    if not idx:
        return False
    return idx[-1] if right else idx[0]


V("vector-index / skip", 1, "(list (vector-index odd? a) (vector-index-right odd? a) (vector-skip odd? a) (vector-skip-right odd? a))",
  lambda a: [_vindex(odd, a), _vindex(odd, a, True), _vindex(lambda x: not odd(x), a), _vindex(lambda x: not odd(x), a, True)])
V("vector-binary-search", 1,
  "(let ((sv (list->vector (let ins ((l (vector->list a)) (acc '())) (if (null? l) acc (ins (cdr l)"
  " (let put ((x (car l)) (s acc)) (cond ((null? s) (list x)) ((< x (car s)) (cons x s)) (else (cons (car s) (put x (cdr s))))))))))))"
  " (map (lambda (x) (let ((i (vector-binary-search sv x (lambda (p q) (- p q))))) (if i (and (exact-integer? i) (< -1 i (vector-length sv)) (vector-ref sv i)) 'absent)))"
  "      '(0 1 2 3 -1)))",
  lambda a: [x if x in a else "absent" for x in (0, 1, 2, 3, -1)])
V("vector-any / every", 1, "(list (vector-any (lambda (x) (and (odd? x) (+ x 10))) a) (vector-every (lambda (x) (and (odd? x) (+ x 10))) a))",
  lambda a: [(_first(odd, a) + 10) if any(map(odd, a)) else False,
             (True if not a else (a[-1] + 10 if all(map(odd, a)) else False))])
V("vector-partition", 1, mv("(vector-partition odd? a)"),
  lambda a: [vl([x for x in a if odd(x)] + [x for x in a if not odd(x)]), sum(1 for x in a if odd(x))])
V("vector-swap! / reverse!", 1,
  "(let ((c (vector-copy a)) (d (vector-copy a)) (e (vector-copy a)) (n (vector-length a)))"
  " (if (> n 0) (vector-swap! c 0 (- n 1))) (vector-reverse! d) (vector-reverse! e (quotient n 2)) (list c d e))",
  lambda a: [vl(([a[-1]] + a[1:-1] + [a[0]]) if len(a) > 1 else a), vl(a[::-1]), vl(a[:len(a) // 2] + a[len(a) // 2:][::-1])])
V("vector-copy! / reverse-copy!", 1,
  "(let ((t (make-vector (+ 2 (vector-length a)) 7)) (u (make-vector (+ 2 (vector-length a)) 7)))"
  " (vector-copy! t 1 a) (vector-reverse-copy! u 1 a) (list t u))",
  lambda a: [vl([7] + a + [7]), vl([7] + a[::-1] + [7])])
V("vector-reverse-copy! range", 1,
  "(let ((u (make-vector (+ 2 (vector-length a)) 7)) (h (quotient (vector-length a) 2)))"
  " (vector-reverse-copy! u 0 a h (vector-length a)) u)",
  lambda a: vl(a[len(a) // 2:][::-1] + [7] * (2 + len(a) // 2)))
V("vector-unfold", 1,
  "(let ((n (vector-length a)))"
  " (list (vector-unfold (lambda (i) (* i i)) n) (vector-unfold (lambda (i s) (values (+ i s) (+ s 10))) n 100)"
  "       (vector-unfold-right (lambda (i s) (values (+ i s) (+ s 10))) n 100)))",
  lambda a: [vl([i * i for i in range(len(a))]), vl([i + 100 + 10 * i for i in range(len(a))]),
             vl([i + 100 + 10 * (len(a) - 1 - i) for i in range(len(a))])])
V("conversions", 1,
  "(list (reverse-vector->list a) (reverse-list->vector (vector->list a)) (vector->list a (quotient (vector-length a) 2))"
  " (reverse-vector->list a 0 (quotient (vector-length a) 2)))",
  lambda a: [a[::-1], vl(a[::-1]), a[len(a) // 2:], a[:len(a) // 2][::-1]])
# ---------------------------------------------------------------- SRFI 133, two vectors
V("vector= 2", 2, "(list (vector= = a b) (vector= = a b a) (vector= = a a b))", lambda a, b: [a == b] * 3)
V("vector-append 2", 2, "(vector-append a b)", lambda a, b: vl(a + b))
V("vector-fold 2 (stops at the shortest)", 2, "(vector-fold (lambda (acc x y) (cons (+ x (* 10 y)) acc)) '() a b)",
  lambda a, b: [x + 10 * y for x, y in _zipmin(a, b)][::-1])
V("vector-fold-right 2 (equal lengths)", 2, "(vector-fold-right (lambda (acc x y) (cons (+ x (* 10 y)) acc)) '() a b)",
  lambda a, b: [x + 10 * y for x, y in _zipmin(a, b)] if len(a) == len(b) else NA)
V("vector-count 2 (stops at the shortest)", 2, "(vector-count < a b)", lambda a, b: sum(1 for x, y in _zipmin(a, b) if x < y))
V("vector-map! 2 (equal lengths)", 2, "(let ((c (vector-copy a))) (vector-map! + c b) c)",
  lambda a, b: vl([x + y for x, y in _zipmin(a, b)]) if len(a) == len(b) else NA)
V("vector-index 2", 2, "(vector-index < a b)",
  lambda a, b: ([x < y for x, y in _zipmin(a, b)].index(True) if any(x < y for x, y in _zipmin(a, b)) else False))
V("vector-index-right 2 (equal lengths)", 2, "(vector-index-right < a b)",
  lambda a, b: (_vindex(lambda p: p[0] < p[1], _zipmin(a, b), True)) if len(a) == len(b) else NA)
V("vector-any / every 2", 2,
  "(list (vector-any (lambda (x y) (and (< x y) (list x y))) a b) (vector-every (lambda (x y) (and (<= x y) (list x y))) a b))",
  lambda a, b: [_first(lambda p: p[0] < p[1], [list(p) for p in _zipmin(a, b)]),
                (True if not _zipmin(a, b) else (list(_zipmin(a, b)[-1]) if all(x <= y for x, y in _zipmin(a, b)) else False))])

LIST_PRELUDE = "(import (scheme base) (scheme write) (srfi 1))\n"
VEC_PRELUDE = "(import (scheme base) (scheme write) (srfi 133))\n"


def job_text(kind, entries):
    """kind: 'list' or 'vector'; entries: indices into L1 / V1"""
    tab = L1 if kind == "list" else V1
    data = "(define S (vector %s))\n" % " ".join("'" + render(s) for s in SEQS)
    fresh = "(list-copy (vector-ref S %s))" if kind == "list" else "(list->vector (vector-ref S %s))"
    out = [LIST_PRELUDE if kind == "list" else VEC_PRELUDE, data,
           "(define n (vector-length S))\n"
           "(define (isort l) (let ins ((l l) (acc '())) (if (null? l) acc (ins (cdr l) (let put ((x (car l)) (s acc))"
           " (cond ((null? s) (list x)) ((< x (car s)) (cons x s)) (else (cons (car s) (put x (cdr s))))))))))\n"
           "(define-syntax show (syntax-rules () ((_ e) (begin (write-simple (guard (ex (#t (list 'E (if (error-object? ex) (error-object-message ex) 'x)))) e)) (newline)))))\n"]
    for ei in entries:
        name, arity, scm, fn = tab[ei]
        if name.endswith("(sorted)"):
            scm = "(isort %s)" % scm
        if name == "lset-adjoin":
            scm = "(let ((r %s)) (list (car r) (isort (cadr r))))" % scm
        if arity == 0:
            out.append("(show %s)\n" % scm)
        elif arity == 1:
            out.append("(do ((i 0 (+ i 1))) ((= i n)) (let ((a %s)) (show %s)))\n" % (fresh % "i", scm))
        else:
            out.append("(do ((i 0 (+ i 1))) ((= i n)) (do ((j 0 (+ j 1))) ((= j n)) (let ((a %s) (b %s)) (show %s))))\n"
                       % (fresh % "i", fresh % "j", scm))
    return "".join(out)


def expected(kind, entries):
    """-> list of (entry name, args, expected text or None)"""
    tab = L1 if kind == "list" else V1
    out = []
    for ei in entries:
        name, arity, scm, fn = tab[ei]
        f = SORTED_MODELS.get(name, fn)
        if arity == 0:
            argsl = [()]
        elif arity == 1:
            argsl = [(a,) for a in SEQS]
        else:
            argsl = [(a, b) for a in SEQS for b in SEQS]
        for args in argsl:
            r = f(*[list(x) for x in args])
            out.append((name, args, None if r is NA else render(r)))
    return out
