"""Operand lattices and exact reference semantics (Python ints / Fractions)."""
from fractions import Fraction
import math

FIX_MAX = 2 ** 62 - 1
FIX_MIN = -2 ** 62


def is_fixnum(n):
    return FIX_MIN <= n <= FIX_MAX


def lattice(level=1):
    """Boundary lattice of integers.  level 0: small core (~60), 1: standard (~260+), 2: extended."""
    s = set([0, 1, -1, 2, -2, 3, -3, 7, 10, -10, 255, 256])
    for d in (-2, -1, 0, 1, 2):
        s.add(FIX_MAX + d)
        s.add(FIX_MIN + d)
        s.add(2 ** 61 + d)
        s.add(-(2 ** 61) + d)
    if level == 0:
        ks = [31, 32, 63, 64, 65, 127, 128, 129, 192]
    elif level == 1:
        ks = [31, 32, 33, 62, 63, 64, 65, 95, 96, 126, 127, 128, 129, 191, 192, 193, 255, 256, 257, 320, 384, 448]
    else:
        ks = sorted(set([31, 32, 33, 95, 96] + [k + d for k in range(64, 449, 64) for d in (-2, -1, 0, 1, 2)]))
    for k in ks:
        for d in (-1, 0, 1):
            s.add(2 ** k + d)
            s.add(-(2 ** k) + d)
    # all-ones / zero interior words
    for words in (2, 3, 4):
        s.add(2 ** (64 * words) - 1)
        s.add(-(2 ** (64 * words) - 1))
        s.add((2 ** 64 - 1) << (64 * (words - 1)))          # high word ones, rest zero
        s.add(((2 ** 64 - 1) << (64 * (words - 1))) + 1)      # zero interior words
        s.add(-((2 ** 64 - 1) << (64 * (words - 1))))
        s.add((1 << (64 * words)) + (2 ** 64 - 1))            # 1, zeros.., ones
    if level >= 1:
        for k in (5, 18, 19, 20, 38, 39, 60):
            s.add(10 ** k)
            s.add(-(10 ** k))
        # exact multiples
        for a in (3, 7, 2 ** 32 + 1, 2 ** 64 - 1, 10 ** 19):
            for b in (3, 2 ** 32 - 1, 2 ** 64 + 1, 10 ** 19):
                s.add(a * b)
                s.add(-a * b)
        s.add(0x5555555555555555_5555555555555555)
        s.add(0xAAAAAAAAAAAAAAAA_AAAAAAAAAAAAAAAA)
        s.add(-0x5555555555555555_5555555555555555)
        s.add(0xFFFFFFFF00000000_FFFFFFFF00000000_FFFFFFFF)
    return sorted(s, key=lambda v: (abs(v).bit_length(), abs(v), v < 0))


def big_operands():
    """Fixed family of large operands (1000-4000 bits) that drive Karatsuba and long division."""
    out = []
    for bits in (1000, 1500, 2048, 3000, 4000):
        out.append(2 ** bits - 1)
        out.append(2 ** bits + 1)
        out.append(int("5" * (bits // 4), 16))
        w = 0
        for i in range(bits // 64):
            w = (w << 64) | (0xFFFFFFFFFFFFFFFF if i % 2 else 0x1)
        out.append(w)
    out.append((2 ** 2048 - 1) * (2 ** 1024 + 1))
    out.append(3 ** 2000)
    out.append(-(7 ** 1000))
    out.append(-(2 ** 3999 + 12345))
    return out


def ratios(level=1):
    sub = [1, 2, 3, 7, 10, 2 ** 31, 2 ** 62 - 1, 2 ** 62, 2 ** 64 - 1, 2 ** 64, 2 ** 64 + 1, 2 ** 127 - 1, 10 ** 19,
           6, 2 ** 32 * 3, 2 ** 128 + 1]
    if level == 0:
        sub = [1, 2, 3, 7, 2 ** 62, 2 ** 64 + 1, 10 ** 19]
    s = set()
    for p in sub:
        for q in sub:
            f = Fraction(p, q)
            s.add(f)
            s.add(-f)
    s.add(Fraction(0))
    return sorted(s, key=lambda f: (max(abs(f.numerator), f.denominator).bit_length(), abs(f), f < 0))


def rounding_ties():
    """rationals at and next to a rounding tie at every magnitude: k + 1/2 for even and odd k (fixnum, boundary, one-,
    two- and more-limb), and their neighbours k + 1/2 +- 1/d"""
    s = set()
    for b in (0, 1, 2, 3, 2 ** 31, 2 ** 61, 2 ** 62 - 2, 2 ** 62 - 1, 2 ** 62, 2 ** 62 + 1, 2 ** 63 - 1, 2 ** 63, 2 ** 63 + 1,
              2 ** 64 - 1, 2 ** 64, 2 ** 64 + 1, 10 ** 19, 10 ** 19 + 1, 2 ** 127 - 1, 2 ** 127, 2 ** 128 + 1, 10 ** 30, 10 ** 30 + 1):
        for k in (b, b + 1):
            for f in (Fraction(2 * k + 1, 2), Fraction(4 * k + 1, 4), Fraction(4 * k + 3, 4), Fraction(6 * k + 2, 6) + Fraction(1, 6),
                      Fraction(2 * k + 1, 2) + Fraction(1, 2 ** 64 + 1), Fraction(2 * k + 1, 2) - Fraction(1, 2 ** 64 + 1)):
                s.add(f)
                s.add(-f)
    return sorted(s, key=lambda f: (max(abs(f.numerator), f.denominator).bit_length(), abs(f), f < 0))


def trunc_div(a, b):
    q = abs(a) // abs(b)
    if (a < 0) != (b < 0):
        q = -q
    return q, a - b * q


def floor_div(a, b):
    q = a // b
    return q, a - b * q


def to_radix(n, r):
    digs = "0123456789abcdefghijklmnopqrstuvwxyz"
    if n == 0:
        return "0"
    neg = n < 0
    n = abs(n)
    out = []
    while n:
        n, d = divmod(n, r)
        out.append(digs[d])
    return ("-" if neg else "") + "".join(reversed(out))


def frac_round(f):
    """round to even"""
    fl = math.floor(f)
    d = f - fl
    if d < Fraction(1, 2):
        return fl
    if d > Fraction(1, 2):
        return fl + 1
    return fl if fl % 2 == 0 else fl + 1


def show(x):
    """Scheme external representation of an exact rational."""
    if isinstance(x, Fraction):
        if x.denominator == 1:
            return str(x.numerator)
        return "%d/%d" % (x.numerator, x.denominator)
    return str(x)


def kind(x):
    """canonical representation class expected from the implementation"""
    if isinstance(x, Fraction) and x.denominator != 1:
        return "r"
    n = x.numerator if isinstance(x, Fraction) else x
    return "f" if is_fixnum(n) else "b"
