"""C18(b): container libraries -- operation alphabets, Scheme driver, and boring Python reference models.

A *history* is a string of operation codes.  The driver replays it on a fresh object of the real library:
vs[0] = (init), vs[i+1] = op_i(vs[i]).  After the last step it prints
    (obs(vs[n])  rel(vs[n], latest earlier live version)  ret  persistence-failures)
where `ret` is the extra return value of the last operation and persistence-failures lists every earlier live
version whose observation changed since it was created.  The Python side computes the same line from a model.

Models: set -> frozenset, bag -> tuple of counts, mapping -> sorted tuple of (key, value), iset -> frozenset,
random-access list / queue / deque -> tuple.
"""
from collections import Counter

CODE0 = 40          # op index i is written as chr(CODE0 + i)


def swrite(x):
    """Python value -> the text chibi's write-simple prints.  str = symbol."""
    if x is True:
        return "#t"
    if x is False:
        return "#f"
    if isinstance(x, int):
        return str(x)
    if isinstance(x, str):
        return x
    if isinstance(x, (list, tuple)):
        return "(" + " ".join(swrite(e) for e in x) + ")"
    raise TypeError(repr(x))


def sparse(text):
    """tiny s-expression reader for diagnosis: nested lists of atom strings; None if unreadable"""
    toks = text.replace("(", " ( ").replace(")", " ) ").split()
    pos = [0]

    def rd():
        if pos[0] >= len(toks):
            raise ValueError
        t = toks[pos[0]]
        pos[0] += 1
        if t == "(":
            out = []
            while True:
                if pos[0] >= len(toks):
                    raise ValueError
                if toks[pos[0]] == ")":
                    pos[0] += 1
                    return out
                out.append(rd())
        if t == ")":
            raise ValueError
        return t
    try:
        r = rd()
        return r if pos[0] == len(toks) else None
    except ValueError:
        return None


class Op:
    def __init__(self, name, scm, fn, consumes=False, ext=False, kills_other=False, lvl=None):
        self.name, self.scm, self.fn, self.consumes, self.kills_other = name, scm, fn, consumes, kills_other
        self.lvl = lvl if lvl is not None else (2 if ext else 1)      # 0: depth-5 core, 1: quick core, 2: extended


class Ctx:
    """what an operation may look at: step index k, the latest and second latest live earlier versions"""
    __slots__ = ("k", "prev", "prev2")

    def __init__(self, k, prev, prev2):
        self.k, self.prev, self.prev2 = k, prev, prev2


DRIVER_PRE = r"""
(define ret 'none)
(define (ret! x v) (set! ret x) v)
(define dead (make-vector 10 #f))
(define (isort ls)
  (let lp ((ls ls) (acc '()))
    (if (null? ls) acc
        (lp (cdr ls)
            (let ins ((x (car ls)) (a acc))
              (cond ((null? a) (list x)) ((< x (car a)) (cons x a)) (else (cons (car a) (ins x (cdr a))))))))))
;; a list whose elements are evaluated strictly left to right (queries must not influence each other)
(define-syntax olist
  (syntax-rules () ((_) '()) ((_ e r ...) (let ((x e)) (cons x (olist r ...))))))
"""

DRIVER = r"""
(define (latest-live vs k skip)      ; index of the skip-th latest live version below k, or #f
  (let lp ((j (- k 1)) (skip skip))
    (cond ((< j 0) #f)
          ((vector-ref dead j) (lp (- j 1) skip))
          ((= skip 0) j)
          (else (lp (- j 1) (- skip 1))))))
(define (run-history h)
  (let* ((n (string-length h))
         (vs (make-vector (+ n 1) #f)))
    (vector-fill! dead #f)
    (set! ret 'none)
    (vector-set! vs 0 (init))
    (let lp ((i 0))
      (when (< i n)
        (let* ((op (- (char->integer (string-ref h i)) 40))
               (p1 (latest-live vs i 0)) (p2 (latest-live vs i 1)))
          (set! ret 'none)
          (let ((nv ((vector-ref ops op) (vector-ref vs i) (and p1 (vector-ref vs p1)) (and p2 (vector-ref vs p2)) i)))
            (vector-set! vs (+ i 1) nv)
            (if (vector-ref consumes op) (vector-set! dead i #t))
            (if (and p1 (vector-ref kills-other op)) (vector-set! dead p1 #t))
            (lp (+ i 1))))))
    ;; observe the final version, relate it to the latest live earlier version, and re-observe EVERY earlier live version
    (let* ((cur (vector-ref vs n))
           (p1 (latest-live vs n 0))
           (r (if p1 (rel2 cur (vector-ref vs p1)) '-))
           (o (obs cur))
           (old (let lp ((j n) (acc '()))       ; includes the final version again: queries must not modify it
                  (if (< j 0) acc
                      (lp (- j 1) (cons (if (vector-ref dead j) 'dead (canon (vector-ref vs j))) acc))))))
      (list o r ret old))))
(define (run-one h)            ; replay one history and print its line (used by replay files)
  (write-simple (guard (e (#t (list 'E (if (error-object? e) (error-object-message e) 'non-error)))) (run-history h)))
  (newline))
;; batch mode: every line of h.txt is "<codes> <index into the table of expected lines>"; only disagreements are printed
(define (read-table name)
  (call-with-input-file name
    (lambda (p) (let lp ((acc '())) (let ((x (read p))) (if (eof-object? x) (list->vector (reverse acc)) (lp (cons x acc))))))))
(define (split-line l)
  (let lp ((i 0)) (if (char=? (string-ref l i) #\space) i (lp (+ i 1)))))
(define (run-file name table-name)
  (let ((table (read-table table-name)))
    (call-with-input-file name
      (lambda (p)
        (let lp ((seq 0))
          (let ((l (read-line p)))
            (cond ((eof-object? l) (write-string ";;DONE ") (write-simple seq) (newline))
                  (else
                   (let* ((sp (split-line l))
                          (h (substring l 0 sp))
                          (idx (string->number (substring l (+ sp 1) (string-length l))))
                          (got (guard (e (#t (list 'E (if (error-object? e) (error-object-message e) 'non-error))))
                                 (run-history h))))
                     (unless (equal? got (vector-ref table idx))
                       (write-string "M ") (write-simple seq) (write-string " ") (write-simple got) (newline))
                     (if (= 0 (modulo seq 1000)) (begin (write-string "H ") (write-simple seq) (newline)))
                     (lp (+ seq 1)))))))))))
"""


class Lib:
    name = ""
    imports = ""
    scheme = ""          # defines init, obs (all queries), canon (cheap canonical content), rel2
    qnames = []
    rnames = []

    def __init__(self):
        self.ops = []
        self.build()
        self._obs_cache = {}
        self._rel_cache = {}
        self._canon_cache = {}

    # ---- to be provided
    def build(self):
        raise NotImplementedError

    def init(self):
        raise NotImplementedError

    def obs(self, m):
        raise NotImplementedError

    def rel(self, a, b):
        raise NotImplementedError

    def canon(self, m):
        raise NotImplementedError

    def add(self, name, scm, fn, **kw):
        self.ops.append(Op(name, scm, fn, **kw))

    # ---- shared
    def alphabet(self, level):
        return [i for i, o in enumerate(self.ops) if o.lvl <= level]

    def driver_text(self):
        ops = "\n".join("  (lambda (cur prev prev2 k) %s)   ; %d %s" % (o.scm, i, o.name) for i, o in enumerate(self.ops))
        return (self.imports + "\n" + DRIVER_PRE + self.scheme + "\n" +
                "(define ops (vector\n%s\n))\n" % ops +
                "(define consumes (vector %s))\n" % " ".join("#t" if o.consumes else "#f" for o in self.ops) +
                "(define kills-other (vector %s))\n" % " ".join("#t" if o.kills_other else "#f" for o in self.ops) +
                DRIVER)

    def obs_s(self, m):
        s = self._obs_cache.get(m)
        if s is None:
            s = self._obs_cache[m] = swrite(self.obs(m))
        return s

    def canon_s(self, m):
        s = self._canon_cache.get(m)
        if s is None:
            s = self._canon_cache[m] = swrite(self.canon(m))
        return s

    def rel_s(self, a, b):
        s = self._rel_cache.get((a, b))
        if s is None:
            s = self._rel_cache[(a, b)] = swrite(self.rel(a, b))
        return s

    # ---- model execution
    @staticmethod
    def live(dead, k, skip):
        j = k - 1
        while j >= 0:
            if not dead[j]:
                if skip == 0:
                    return j
                skip -= 1
            j -= 1
        return None

    def step(self, vs, dead, opi):
        """apply op to the state (vs, dead) -> (vs', dead', ret) or None when the op is not applicable"""
        k = len(vs) - 1
        p1 = self.live(dead, k, 0)
        p2 = self.live(dead, k, 1)
        op = self.ops[opi]
        r = op.fn(vs[k], Ctx(k, vs[p1] if p1 is not None else None, vs[p2] if p2 is not None else None))
        if r is None:
            return None
        new, ret = r if isinstance(r, Ret) else (r, "none")
        nd = dead + [False]
        if op.consumes:
            nd[k] = True
        if op.kills_other and p1 is not None:
            nd[p1] = True
        return vs + [new], nd, ret

    def line(self, vs, dead, ret):
        n = len(vs) - 1
        p1 = self.live(dead, n, 0)
        r = self.rel_s(vs[n], vs[p1]) if p1 is not None else "-"
        old = " ".join("dead" if dead[j] else self.canon_s(vs[j]) for j in range(n + 1))
        return "(%s %s %s (%s))" % (self.obs_s(vs[n]), r, swrite(ret), old)

    def replay(self, codes):
        """-> list of (vs, dead, ret) after each prefix, or None if some op is inapplicable"""
        vs, dead, ret = [self.init()], [False], "none"
        out = [(vs, dead, ret)]
        for c in codes:
            r = self.step(vs, dead, c)
            if r is None:
                return None
            vs, dead, ret = r
            out.append(r)
        return out

    def enumerate(self, prefix, alphabet, maxlen, emit, include_root=True):
        """DFS over all applicable extensions of `prefix` (op indices) up to total length maxlen.
        emit(codes_string, expected_line, canon_state)"""
        st = self.replay(prefix)
        if st is None:
            return
        vs, dead, ret = st[-1]
        pre = "".join(chr(CODE0 + c) for c in prefix)

        def rec(vs, dead, ret, h, top):
            if not top or include_root:
                emit(h, self.line(vs, dead, ret), vs[-1])
            if len(vs) - 1 >= maxlen:
                return
            for opi in alphabet:
                r = self.step(vs, dead, opi)
                if r is not None:
                    rec(r[0], r[1], r[2], h + chr(CODE0 + opi), False)
        rec(vs, dead, ret, pre, True)


class Ret(tuple):
    """(new model, extra return value)"""
    def __new__(cls, new, ret):
        return tuple.__new__(cls, (new, ret))


# =====================================================================================================
# SRFI 113 sets
# =====================================================================================================
E4 = (0, 1, 2, 3)
PRE113 = r"""
(import (scheme base) (scheme write) (scheme read) (scheme file) (srfi 113) (srfi 128))
(define cmp (make-default-comparator))
"""


class Sets(Lib):
    name = "srfi-113-set"
    imports = PRE113
    scheme = r"""
(define (init) (set cmp))
(define (sl s) (isort (set->list s)))
(define (canon s) (sl s))
(define (obs s)
  (olist (map (lambda (e) (set-contains? s e)) '(0 1 2 3 4))
        (set-size s)
        (set-empty? s)
        (sl s)
        (map (lambda (e) (set-member s e 'no)) '(0 1 2 3 4))
        (set-count odd? s)
        (set-any? odd? s)
        (set-every? odd? s)
        (set-find (lambda (x) (= x 2)) s (lambda () 'none))
        (set-fold + 0 s)
        (let ((acc 0)) (set-for-each (lambda (x) (set! acc (+ acc (* x x) 1))) s) acc)
        (set? s)))
(define (rel2 a b)
  (olist (set=? a b) (set<? a b) (set<=? a b) (set>? a b) (set>=? a b) (set-disjoint? a b)))
"""
    qnames = ["set-contains?", "set-size", "set-empty?", "set->list", "set-member", "set-count", "set-any?", "set-every?",
              "set-find", "set-fold", "set-for-each", "set?"]
    rnames = ["set=?", "set<?", "set<=?", "set>?", "set>=?", "set-disjoint?"]

    def init(self):
        return frozenset()

    def obs(self, s):
        return [[e in s for e in range(5)], len(s), not s, sorted(s), [e if e in s else "no" for e in range(5)],
                sum(1 for e in s if e % 2), any(e % 2 for e in s), all(e % 2 for e in s), 2 if 2 in s else "none",
                sum(s), sum(e * e + 1 for e in s), True]

    def rel(self, a, b):
        return [a == b, a < b, a <= b, a > b, a >= b, not (a & b)]

    def canon(self, s):
        return sorted(s)

    def build(self):
        A = self.add
        fs = frozenset
        for e in E4:
            A("set-adjoin %d" % e, "(set-adjoin cur %d)" % e, lambda s, c, e=e: s | {e}, lvl=0)
        for e in E4:
            A("set-delete %d" % e, "(set-delete cur %d)" % e, lambda s, c, e=e: s - {e}, lvl=0 if e < 3 else 1)
        for e in (1, 2):
            A("set-adjoin! %d" % e, "(set-adjoin! cur %d)" % e, lambda s, c, e=e: s | {e}, consumes=True, lvl=0 if e == 1 else 1)
            A("set-delete! %d" % e, "(set-delete! cur %d)" % e, lambda s, c, e=e: s - {e}, consumes=True, lvl=0 if e == 2 else 1)
        bins = [("set-union", lambda a, b: a | b), ("set-intersection", lambda a, b: a & b),
                ("set-difference", lambda a, b: a - b), ("set-xor", lambda a, b: a ^ b)]
        for nm, f in bins:
            A("%s cur prev" % nm, "(%s cur prev)" % nm, lambda s, c, f=f: None if c.prev is None else f(s, c.prev),
              lvl=1 if nm == "set-xor" else 0)
        for nm, f in bins:
            A("%s cur prev2" % nm, "(%s cur prev2)" % nm, lambda s, c, f=f: None if c.prev2 is None else f(s, c.prev2),
              ext=nm in ("set-intersection", "set-xor"))
        A("set-filter odd?", "(set-filter odd? cur)", lambda s, c: fs(e for e in s if e % 2), lvl=0)
        A("set-remove odd?", "(set-remove odd? cur)", lambda s, c: fs(e for e in s if not e % 2))
        A("set-map quotient2", "(set-map cmp (lambda (x) (quotient x 2)) cur)", lambda s, c: fs(e // 2 for e in s), lvl=0)
        A("set-copy", "(set-copy cur)", lambda s, c: s)
        # ---- extended alphabet
        for nm, f in bins:
            A("%s! cur prev" % nm, "(%s! cur prev)" % nm, lambda s, c, f=f: None if c.prev is None else f(s, c.prev),
              consumes=True, ext=True)
        A("set-difference prev cur", "(set-difference prev cur)", lambda s, c: None if c.prev is None else c.prev - s, ext=True)
        A("set-union cur prev prev2", "(set-union cur prev prev2)",
          lambda s, c: None if c.prev2 is None else s | c.prev | c.prev2, ext=True)
        A("set-intersection cur prev prev2", "(set-intersection cur prev prev2)",
          lambda s, c: None if c.prev2 is None else s & c.prev & c.prev2, ext=True)
        A("set-difference cur prev prev2", "(set-difference cur prev prev2)",
          lambda s, c: None if c.prev2 is None else s - c.prev - c.prev2, ext=True)
        A("set-delete-all (0 3)", "(set-delete-all cur '(0 3))", lambda s, c: s - {0, 3}, ext=True)
        A("set-delete-all! (1 1)", "(set-delete-all! cur '(1 1))", lambda s, c: s - {1}, consumes=True, ext=True)
        A("set-replace 2", "(set-replace cur 2)", lambda s, c: s, ext=True)
        A("set-replace! 2", "(set-replace! cur 2)", lambda s, c: s, consumes=True, ext=True)
        A("set-search! 3 insert/remove",
          "(call-with-values (lambda () (set-search! cur 3 (lambda (insert ignore) (insert 'ins))"
          " (lambda (e update remove) (remove (list 'rem e))))) (lambda (s obj) (ret! obj s)))",
          lambda s, c: Ret(s - {3}, ["rem", 3]) if 3 in s else Ret(s | {3}, "ins"), consumes=True, ext=True)
        A("set-search! 1 ignore/update",
          "(call-with-values (lambda () (set-search! cur 1 (lambda (insert ignore) (ignore 'ign))"
          " (lambda (e update remove) (update 1 (list 'upd e))))) (lambda (s obj) (ret! obj s)))",
          lambda s, c: Ret(s, ["upd", 1]) if 1 in s else Ret(s, "ign"), consumes=True, ext=True)
        A("list->set! (3 0)", "(list->set! cur (list 3 0))", lambda s, c: s | {3, 0}, consumes=True, ext=True)
        A("set-filter! odd?", "(set-filter! odd? cur)", lambda s, c: fs(e for e in s if e % 2), consumes=True, ext=True)
        A("set-remove! odd?", "(set-remove! odd? cur)", lambda s, c: fs(e for e in s if not e % 2), consumes=True, ext=True)
        A("set-partition odd? (second)",
          "(call-with-values (lambda () (set-partition odd? cur)) (lambda (a b) (ret! (sl a) b)))",
          lambda s, c: Ret(fs(e for e in s if not e % 2), sorted(e for e in s if e % 2)), ext=True)
        A("set-adjoin 0 1 1", "(set-adjoin cur 0 1 1)", lambda s, c: s | {0, 1}, ext=True)
        A("set-delete 2 3 3", "(set-delete cur 2 3 3)", lambda s, c: s - {2, 3}, ext=True)
        A("(set cmp 3 3 0)", "(set cmp 3 3 0)", lambda s, c: fs({3, 0}), ext=True)
        A("(list->set cmp (2 1 2))", "(list->set cmp (list 2 1 2))", lambda s, c: fs({1, 2}), ext=True)
        A("(set-unfold ..) = {0 1 2}", "(set-unfold cmp (lambda (i) (> i 2)) (lambda (i) i) (lambda (i) (+ i 1)) 0)",
          lambda s, c: fs({0, 1, 2}), ext=True)


# =====================================================================================================
# SRFI 113 bags  (model: tuple of the counts of 0..3)
# =====================================================================================================
def _bag(cs):
    return tuple(cs)


class Bags(Lib):
    name = "srfi-113-bag"
    imports = PRE113
    scheme = r"""
(define (init) (bag cmp))
(define (asort al)      ; alist -> list of (elt count) sorted by elt
  (map (lambda (e) (list e (cdr (assv e al)))) (isort (map car al))))
(define (obs b)
  (olist (map (lambda (e) (bag-element-count b e)) '(0 1 2 3 4))
        (map (lambda (e) (bag-contains? b e)) '(0 1 2 3 4))
        (bag-size b)
        (bag-unique-size b)
        (bag-empty? b)
        (isort (bag->list b))
        (bag-count odd? b)
        (bag-any? odd? b)
        (bag-every? odd? b)
        (bag-find (lambda (x) (= x 2)) b (lambda () 'none))
        (bag-fold + 0 b)
        (let ((acc 0)) (bag-for-each (lambda (x) (set! acc (+ acc (* x x) 1))) b) acc)
        (asort (bag->alist b))
        (bag-fold-unique (lambda (e c acc) (+ acc (* (+ e 1) c))) 0 b)
        (let ((acc 0)) (bag-for-each-unique (lambda (e c) (set! acc (+ acc (* (+ e 1) c 10)))) b) acc)
        (map (lambda (e) (bag-member b e 'no)) '(0 1 2 3 4))
        (bag? b)
        (isort (set->list (bag->set b)))))       ; last: in this implementation bag->set can disturb its argument
(define (rel2 a b)
  (olist (bag=? a b) (bag<? a b) (bag<=? a b) (bag>? a b) (bag>=? a b) (bag-disjoint? a b)))
(define (bl b) (map (lambda (e) (bag-element-count b e)) '(0 1 2 3)))
(define (canon b) (bl b))
"""
    qnames = ["bag-element-count", "bag-contains?", "bag-size", "bag-unique-size", "bag-empty?", "bag->list", "bag-count",
              "bag-any?", "bag-every?", "bag-find", "bag-fold", "bag-for-each", "bag->alist",
              "bag-fold-unique", "bag-for-each-unique", "bag-member", "bag?", "bag->set"]
    rnames = ["bag=?", "bag<?", "bag<=?", "bag>?", "bag>=?", "bag-disjoint?"]

    def init(self):
        return (0, 0, 0, 0)

    def obs(self, b):
        el = [e for e in range(4) for _ in range(b[e])]
        un = [e for e in range(4) if b[e]]
        return [list(b) + [0], [c > 0 for c in b] + [False], sum(b), len(un), not el, el,
                sum(1 for e in el if e % 2), any(e % 2 for e in el), all(e % 2 for e in el),
                2 if b[2] else "none", sum(el), sum(e * e + 1 for e in el), [[e, b[e]] for e in un],
                sum((e + 1) * b[e] for e in un), sum((e + 1) * b[e] * 10 for e in un),
                [e if b[e] else "no" for e in range(4)] + ["no"], True, un]

    def rel(self, a, b):
        le = all(x <= y for x, y in zip(a, b))
        ge = all(x >= y for x, y in zip(a, b))
        return [a == b, le and a != b, le, ge and a != b, ge, not any(x and y for x, y in zip(a, b))]

    def canon(self, b):
        return list(b)

    def build(self):
        A = self.add

        def upd(b, e, f):
            l = list(b)
            l[e] = f(l[e])
            return tuple(l)

        def fmap(b, f):
            l = [0, 0, 0, 0]
            for e in range(4):
                l[f(e)] += b[e]
            return tuple(l)
        for e in E4:
            A("bag-adjoin %d" % e, "(bag-adjoin cur %d)" % e, lambda b, c, e=e: upd(b, e, lambda x: x + 1), lvl=0 if e < 3 else 1)
        for e in E4:
            # with two or more copies present SRFI 113 can be read as "one copy" or "all copies": not generated
            A("bag-delete %d" % e, "(bag-delete cur %d)" % e, lambda b, c, e=e: None if b[e] > 1 else upd(b, e, lambda x: 0),
              lvl=0 if e < 2 else 1)
        for e in (0, 3):
            A("bag-increment! %d 2" % e, "(let ((r (bag-increment! cur %d 2))) (ret! (bag? r) (if (bag? r) r cur)))" % e,
              lambda b, c, e=e: Ret(upd(b, e, lambda x: x + 2), True), consumes=True, lvl=0 if e == 0 else 1)
        A("bag-decrement! 1 1", "(let ((r (bag-decrement! cur 1 1))) (ret! (bag? r) (if (bag? r) r cur)))",
          lambda b, c: Ret(upd(b, 1, lambda x: max(0, x - 1)), True), consumes=True, lvl=0)
        z = lambda f: (lambda a, b: tuple(f(x, y) for x, y in zip(a, b)))
        bins = [("bag-union", z(max)), ("bag-intersection", z(min)), ("bag-difference", z(lambda x, y: max(0, x - y))),
                ("bag-xor", z(lambda x, y: abs(x - y))), ("bag-sum", z(lambda x, y: x + y))]
        for nm, f in bins:
            A("%s cur prev" % nm, "(%s cur prev)" % nm, lambda s, c, f=f: None if c.prev is None else f(s, c.prev),
              lvl=0 if nm in ("bag-union", "bag-difference", "bag-sum") else 1)
        for nm, f in bins:
            A("%s cur prev2" % nm, "(%s cur prev2)" % nm, lambda s, c, f=f: None if c.prev2 is None else f(s, c.prev2),
              ext=nm not in ("bag-union", "bag-difference"))
        A("bag-product 2", "(bag-product 2 cur)", lambda b, c: tuple(2 * x for x in b), lvl=0)
        A("bag-filter odd?", "(bag-filter odd? cur)", lambda b, c: (0, b[1], 0, b[3]), lvl=0)
        A("bag-remove odd?", "(bag-remove odd? cur)", lambda b, c: (b[0], 0, b[2], 0))
        A("bag-map quotient2", "(bag-map cmp (lambda (x) (quotient x 2)) cur)", lambda b, c: fmap(b, lambda e: e // 2), lvl=0)
        A("bag-copy", "(bag-copy cur)", lambda b, c: b)
        # ---- extended
        for nm, f in bins:
            A("%s! cur prev" % nm, "(%s! cur prev)" % nm, lambda s, c, f=f: None if c.prev is None else f(s, c.prev),
              consumes=True, ext=True)
        A("bag-difference prev cur", "(bag-difference prev cur)",
          lambda s, c: None if c.prev is None else bins[2][1](c.prev, s), ext=True)
        A("bag-union cur prev prev2", "(bag-union cur prev prev2)",
          lambda s, c: None if c.prev2 is None else bins[0][1](bins[0][1](s, c.prev), c.prev2), ext=True)
        A("bag-product 0", "(bag-product 0 cur)", lambda b, c: (0, 0, 0, 0), ext=True)
        A("bag-product! 3", "(bag-product! 3 cur)", lambda b, c: tuple(3 * x for x in b), consumes=True, ext=True)
        A("bag-delete-all (0 3)", "(bag-delete-all cur '(0 3))",
          lambda b, c: None if b[0] > 1 or b[3] > 1 else (0, b[1], b[2], 0), ext=True)
        A("bag-replace 2", "(bag-replace cur 2)", lambda b, c: None if b[2] > 1 else b, ext=True)
        A("bag-search! 2 insert/remove",
          "(call-with-values (lambda () (bag-search! cur 2 (lambda (insert ignore) (insert 'ins))"
          " (lambda (e update remove) (remove (list 'rem e))))) (lambda (s obj) (ret! obj s)))",
          lambda b, c: None if b[2] > 1 else (Ret(upd(b, 2, lambda x: 0), ["rem", 2]) if b[2] else Ret(upd(b, 2, lambda x: 1), "ins")),
          consumes=True, ext=True)
        A("list->bag! (3 0 3)", "(list->bag! cur (list 3 0 3))", lambda b, c: (b[0] + 1, b[1], b[2], b[3] + 2),
          consumes=True, ext=True)
        A("bag-filter! odd?", "(bag-filter! odd? cur)", lambda b, c: (0, b[1], 0, b[3]), consumes=True, ext=True)
        A("bag-partition odd? (second)",
          "(call-with-values (lambda () (bag-partition odd? cur)) (lambda (a b) (ret! (bl a) b)))",
          lambda b, c: Ret((b[0], 0, b[2], 0), [0, b[1], 0, b[3]]), ext=True)
        A("set->bag (bag->set cur)", "(set->bag (bag->set cur))", lambda b, c: tuple(min(x, 1) for x in b), ext=True)
        A("set->bag! cur (bag->set prev)", "(set->bag! cur (bag->set prev))",
          lambda b, c: None if c.prev is None else tuple(x + min(y, 1) for x, y in zip(b, c.prev)), consumes=True, ext=True)
        A("alist->bag (bag->alist cur)", "(alist->bag cmp (bag->alist cur))", lambda b, c: b, ext=True)
        A("bag-adjoin 1 1", "(bag-adjoin cur 1 1)", lambda b, c: upd(b, 1, lambda x: x + 2), ext=True)
        A("bag-adjoin! 2", "(bag-adjoin! cur 2)", lambda b, c: upd(b, 2, lambda x: x + 1), consumes=True, ext=True)
        A("(bag cmp 3 3 0)", "(bag cmp 3 3 0)", lambda b, c: (1, 0, 0, 2), ext=True)
        A("(list->bag cmp (2 1 2))", "(list->bag cmp (list 2 1 2))", lambda b, c: (0, 1, 2, 0), ext=True)
        A("(bag-unfold ..) = {0 0 1}", "(bag-unfold cmp (lambda (i) (> i 2)) (lambda (i) (quotient i 2)) (lambda (i) (+ i 1)) 0)",
          lambda b, c: (2, 1, 0, 0), ext=True)
        A("bag-decrement! 0 5", "(let ((r (bag-decrement! cur 0 5))) (ret! (bag? r) (if (bag? r) r cur)))",
          lambda b, c: Ret(upd(b, 0, lambda x: max(0, x - 5)), True), consumes=True, ext=True)


def swrite_tree(t):
    """parsed tree (from sparse) -> text"""
    if isinstance(t, list):
        return "(" + " ".join(swrite_tree(e) for e in t) + ")"
    return str(t)


# (alphabet level, maximal history length) per tier.  level 0 < level 1 < level 2 are nested alphabets.
# quick   : reduced alphabet (level 0) to length 4, core alphabet (level 1) to length 3, every extended op to length 2
# thorough: core alphabet to length 4, extended alphabet to length 3, reduced alphabet to length 5
Lib.plan = {"quick": [(0, 4), (1, 3), (2, 2)], "thorough": [(1, 4), (2, 3), (0, 5)]}
LIBS = {}


def register(cls):
    LIBS[cls.name] = cls
    return cls


register(Sets)
register(Bags)


# =====================================================================================================
# SRFI 146 mappings (model: sorted tuple of (key, value))
# =====================================================================================================
def _md(m):
    return dict(m)


def _mt(d):
    return tuple(sorted(d.items()))


class Mappings(Lib):
    name = "srfi-146-mapping"
    imports = "(import (scheme base) (scheme write) (scheme read) (scheme file) (srfi 146) (srfi 128))\n(define cmp (make-default-comparator))\n"
    scheme = r"""
(define (init) (mapping cmp))
(define (al m) (map (lambda (p) (list (car p) (cdr p))) (mapping->alist m)))
(define (canon m) (al m))
(define (val k e) (+ (* 10 (+ k 1)) e))
(define (obs m)
  (olist (al m)
         (map (lambda (e) (mapping-contains? m e)) '(0 1 2 3 4))
         (map (lambda (e) (mapping-ref/default m e 'no)) '(0 1 2 3 4))
         (mapping-size m)
         (mapping-empty? m)
         (mapping-keys m)
         (mapping-values m)
         (mapping-ref m 2 (lambda () 'fail) (lambda (v) (list 'ok v)))
         (if (mapping-empty? m) 'empty
             (list (mapping-min-key m) (mapping-max-key m) (mapping-min-value m) (mapping-max-value m)))
         (map (lambda (e) (mapping-key-predecessor m e (lambda () 'none))) '(0 1 2 3 4))
         (map (lambda (e) (mapping-key-successor m e (lambda () 'none))) '(0 1 2 3 4))
         (mapping-fold (lambda (k v acc) (cons k acc)) '() m)
         (mapping-fold/reverse (lambda (k v acc) (cons v acc)) '() m)
         (mapping-count (lambda (k v) (odd? k)) m)
         (mapping-any? (lambda (k v) (odd? k)) m)
         (mapping-every? (lambda (k v) (odd? k)) m)
         (call-with-values (lambda () (mapping-find (lambda (k v) (odd? k)) m (lambda () (values 'none 'none)))) list)
         (mapping-map->list (lambda (k v) (+ k v)) m)
         (let ((acc '())) (mapping-for-each (lambda (k v) (set! acc (cons k acc))) m) acc)
         (call-with-values (lambda () (mapping-entries m)) list)
         (mapping? m)))
(define (rel2 a b)
  (olist (mapping=? cmp a b) (mapping<? cmp a b) (mapping<=? cmp a b) (mapping>? cmp a b) (mapping>=? cmp a b)
         (mapping-disjoint? a b)))
"""
    qnames = ["mapping->alist", "mapping-contains?", "mapping-ref/default", "mapping-size", "mapping-empty?", "mapping-keys",
              "mapping-values", "mapping-ref", "mapping-min/max-key/value", "mapping-key-predecessor", "mapping-key-successor",
              "mapping-fold", "mapping-fold/reverse", "mapping-count", "mapping-any?", "mapping-every?", "mapping-find",
              "mapping-map->list", "mapping-for-each", "mapping-entries", "mapping?"]
    rnames = ["mapping=?", "mapping<?", "mapping<=?", "mapping>?", "mapping>=?", "mapping-disjoint?"]

    def init(self):
        return ()

    def canon(self, m):
        return [[k, v] for k, v in m]

    def obs(self, m):
        d = dict(m)
        ks = [k for k, v in m]
        vs = [v for k, v in m]
        odd = [(k, v) for k, v in m if k % 2]
        return [[[k, v] for k, v in m], [e in d for e in range(5)], [d.get(e, "no") for e in range(5)], len(m), not m,
                ks, vs, ["ok", d[2]] if 2 in d else "fail",
                [ks[0], ks[-1], vs[0], vs[-1]] if m else "empty",
                [max([k for k in ks if k < e], default="none") for e in range(5)],
                [min([k for k in ks if k > e], default="none") for e in range(5)],
                ks[::-1], vs, len(odd), bool(odd), len(odd) == len(m),
                list(odd[0]) if odd else ["none", "none"], [k + v for k, v in m], ks[::-1], [ks, vs], True]

    def rel(self, a, b):
        sa, sb = set(a), set(b)
        return [sa == sb, sa < sb, sa <= sb, sa > sb, sa >= sb, not (set(dict(a)) & set(dict(b)))]

    def build(self):
        A = self.add
        V = lambda k, e: 10 * (k + 1) + e

        def put(m, k, v):
            d = dict(m)
            d[k] = v
            return _mt(d)

        def rem(m, ks):
            return tuple((k, v) for k, v in m if k not in ks)
        for e in E4:
            A("mapping-set %d v" % e, "(mapping-set cur %d (val k %d))" % (e, e), lambda m, c, e=e: put(m, e, V(c.k, e)),
              lvl=0 if e < 3 else 1)
        for e in E4:
            A("mapping-adjoin %d v" % e, "(mapping-adjoin cur %d (val k %d))" % (e, e),
              lambda m, c, e=e: m if e in dict(m) else put(m, e, V(c.k, e)), lvl=0 if e == 3 else (1 if e == 1 else 2))
        for e in E4:
            A("mapping-delete %d" % e, "(mapping-delete cur %d)" % e, lambda m, c, e=e: rem(m, {e}), lvl=0 if e < 3 else 1)
        A("mapping-replace 2 v", "(mapping-replace cur 2 (val k 2))", lambda m, c: put(m, 2, V(c.k, 2)) if 2 in dict(m) else m, lvl=2)
        A("mapping-update/default 0 +1 100", "(mapping-update/default cur 0 (lambda (x) (+ x 1)) 100)",
          lambda m, c: put(m, 0, dict(m).get(0, 100) + 1), lvl=0)
        A("mapping-intern 1 v", "(call-with-values (lambda () (mapping-intern cur 1 (lambda () (val k 1)))) (lambda (m v) (ret! v m)))",
          lambda m, c: Ret(m, dict(m)[1]) if 1 in dict(m) else Ret(put(m, 1, V(c.k, 1)), V(c.k, 1)))
        A("mapping-pop", "(call-with-values (lambda () (mapping-pop cur (lambda () (values cur 'empty 'empty))))"
          " (lambda (m k v) (ret! (list k v) m)))",
          lambda m, c: Ret(m[1:], list(m[0])) if m else Ret(m, ["empty", "empty"]), lvl=0)

        def union(a, b):
            d = dict(b)
            d.update(dict(a))
            return _mt(d)
        bins = [("mapping-union", union),
                ("mapping-intersection", lambda a, b: tuple((k, v) for k, v in a if k in dict(b))),
                ("mapping-difference", lambda a, b: tuple((k, v) for k, v in a if k not in dict(b))),
                ("mapping-xor", lambda a, b: _mt(dict([(k, v) for k, v in a if k not in dict(b)] +
                                                      [(k, v) for k, v in b if k not in dict(a)])))]
        for nm, f in bins:
            A("%s cur prev" % nm, "(%s cur prev)" % nm, lambda s, c, f=f: None if c.prev is None else f(s, c.prev),
              lvl=1 if nm == "mapping-xor" else 0)
        for nm, f in bins:
            A("%s cur prev2" % nm, "(%s cur prev2)" % nm, lambda s, c, f=f: None if c.prev2 is None else f(s, c.prev2),
              lvl=2)
        A("mapping-filter odd-key", "(mapping-filter (lambda (k v) (odd? k)) cur)", lambda m, c: tuple(x for x in m if x[0] % 2), lvl=0)
        A("mapping-remove odd-key", "(mapping-remove (lambda (k v) (odd? k)) cur)", lambda m, c: tuple(x for x in m if not x[0] % 2))
        A("mapping-map k->3-k", "(mapping-map (lambda (k v) (values (- 3 k) v)) cmp cur)",
          lambda m, c: _mt({3 - k: v for k, v in m}))
        A("mapping-range< 2", "(mapping-range< cur 2)", lambda m, c: tuple(x for x in m if x[0] < 2), lvl=0)
        A("mapping-range>= 1", "(mapping-range>= cur 1)", lambda m, c: tuple(x for x in m if x[0] >= 1))
        # ---- extended
        A("mapping-range= 2", "(mapping-range= cur 2)", lambda m, c: tuple(x for x in m if x[0] == 2), ext=True)
        A("mapping-range<= 1", "(mapping-range<= cur 1)", lambda m, c: tuple(x for x in m if x[0] <= 1), ext=True)
        A("mapping-range> 1", "(mapping-range> cur 1)", lambda m, c: tuple(x for x in m if x[0] > 1), ext=True)
        A("mapping-split 1 -> (< <= = >= >)",
          "(call-with-values (lambda () (mapping-split cur 1)) (lambda (a b c d e) (ret! (map al (list a b c d)) e)))",
          lambda m, c: Ret(tuple(x for x in m if x[0] > 1),
                           [[[k, v] for k, v in m if p(k)] for p in (lambda k: k < 1, lambda k: k <= 1, lambda k: k == 1,
                                                                      lambda k: k >= 1)]), ext=True)
        A("mapping-catenate (range< 2) 2 v (range> 2)",
          "(mapping-catenate cmp (mapping-range< cur 2) 2 (val k 2) (mapping-range> cur 2))",
          lambda m, c: put(m, 2, V(c.k, 2)), ext=True)
        A("mapping-map/monotone k->k v->v+1", "(mapping-map/monotone (lambda (k v) (values k (+ v 1))) cmp cur)",
          lambda m, c: tuple((k, v + 1) for k, v in m), ext=True)
        A("mapping-set! 1 v", "(mapping-set! cur 1 (val k 1))", lambda m, c: put(m, 1, V(c.k, 1)), consumes=True, ext=True)
        A("mapping-adjoin! 2 v", "(mapping-adjoin! cur 2 (val k 2))",
          lambda m, c: m if 2 in dict(m) else put(m, 2, V(c.k, 2)), consumes=True, ext=True)
        A("mapping-delete! 1", "(mapping-delete! cur 1)", lambda m, c: rem(m, {1}), consumes=True, ext=True)
        A("mapping-delete-all (0 3)", "(mapping-delete-all cur '(0 3))", lambda m, c: rem(m, {0, 3}), ext=True)
        A("mapping-set 0 v 0 w 3 x", "(mapping-set cur 0 (val k 0) 0 (+ 1 (val k 0)) 3 (val k 3))",
          lambda m, c: put(put(m, 0, V(c.k, 0) + 1), 3, V(c.k, 3)), ext=True)
        A("mapping-update 3 +1 (failure 200)", "(mapping-update cur 3 (lambda (x) (+ x 1)) (lambda () 200))",
          lambda m, c: put(m, 3, dict(m).get(3, 200) + 1), ext=True)
        A("mapping-search 2 insert/remove",
          "(call-with-values (lambda () (mapping-search cur 2 (lambda (insert ignore) (insert (val k 2) 'ins))"
          " (lambda (key v update remove) (remove (list 'rem key v))))) (lambda (m obj) (ret! obj m)))",
          lambda m, c: Ret(rem(m, {2}), ["rem", 2, dict(m)[2]]) if 2 in dict(m) else Ret(put(m, 2, V(c.k, 2)), "ins"), ext=True)
        A("mapping-search 1 ignore/update",
          "(call-with-values (lambda () (mapping-search cur 1 (lambda (insert ignore) (ignore 'ign))"
          " (lambda (key v update remove) (update key (+ v 1) (list 'upd key v))))) (lambda (m obj) (ret! obj m)))",
          lambda m, c: Ret(put(m, 1, dict(m)[1] + 1), ["upd", 1, dict(m)[1]]) if 1 in dict(m) else Ret(m, "ign"), ext=True)
        A("mapping-partition odd-key (second)",
          "(call-with-values (lambda () (mapping-partition (lambda (k v) (odd? k)) cur)) (lambda (a b) (ret! (al a) b)))",
          lambda m, c: Ret(tuple(x for x in m if not x[0] % 2), [[k, v] for k, v in m if k % 2]), ext=True)
        A("mapping-copy", "(mapping-copy cur)", lambda m, c: m, ext=True)
        A("alist->mapping (mapping->alist cur)", "(alist->mapping cmp (mapping->alist cur))", lambda m, c: m, ext=True)
        A("alist->mapping! cur ((2 . v) (0 . w))", "(alist->mapping! cur (list (cons 2 (val k 2)) (cons 0 (val k 0))))",
          lambda m, c: put(put(m, 2, V(c.k, 2)), 0, V(c.k, 0)), consumes=True, ext=True)
        A("(mapping cmp 3 30 0 0 3 33)", "(mapping cmp 3 30 0 0 3 33)", lambda m, c: ((0, 0), (3, 30)), ext=True)
        A("(mapping-unfold ..) = {0:0 1:10 2:20}",
          "(mapping-unfold (lambda (i) (> i 2)) (lambda (i) (values i (* 10 i))) (lambda (i) (+ i 1)) 0 cmp)",
          lambda m, c: ((0, 0), (1, 10), (2, 20)), ext=True)
        A("mapping-union cur prev prev2", "(mapping-union cur prev prev2)",
          lambda m, c: None if c.prev2 is None else union(union(m, c.prev), c.prev2), ext=True)


# =====================================================================================================
# (chibi iset)  (model: frozenset of ints)
# =====================================================================================================
ISET_A = (0, 1, 31, 32, 63, 64, 65, 255, 256, 1023, 1024, 1048576)
ISET_P = (0, 1, 2, 3, 30, 31, 32, 33, 62, 63, 64, 65, 66, 127, 128, 254, 255, 256, 257, 1022, 1023, 1024, 1025, 1048575,
          1048576, 1048577)


class Isets(Lib):
    name = "chibi-iset"
    imports = "(import (scheme base) (scheme write) (scheme read) (scheme file) (chibi iset))\n"
    scheme = r"""
(define P '(%s))
(define (init) (make-iset))
(define (canon s) (iset->list s))
(define (cursor-list s)
  (let lp ((c (iset-cursor s)) (acc '()) (fuel 3000))
    (cond ((end-of-iset? c) (reverse acc))
          ((= fuel 0) (reverse (cons 'runaway acc)))
          (else (lp (iset-cursor-next s c) (cons (iset-ref s c) acc) (- fuel 1))))))
(define (obs s)
  (let ((ls (iset->list s)))
    (olist ls
           (iset-size s)
           (iset-empty? s)
           (let lp ((p P) (acc '())) (if (null? p) (reverse acc) (lp (cdr p) (if (iset-contains? s (car p)) (cons (car p) acc) acc))))
           (iset-fold + 0 s)
           (cursor-list s)
           (map (lambda (e) (iset-rank s e)) ls)
           (let lp ((i (- (length ls) 1)) (acc '())) (if (< i 0) acc (lp (- i 1) (cons (iset-select s i) acc))))
           (let ((acc 0)) (iset-for-each (lambda (x) (set! acc (+ acc 1))) s) acc)
           (iset? s))))
(define (rel2 a b) (olist (iset= a b) (iset<= a b) (iset>= a b) (iset= a b a) (iset<= a b b)))
""" % " ".join(map(str, ISET_P))
    qnames = ["iset->list", "iset-size", "iset-empty?", "iset-contains?", "iset-fold", "iset-cursor walk", "iset-rank",
              "iset-select", "iset-for-each", "iset?"]
    rnames = ["iset=", "iset<=", "iset>=", "iset= a b a", "iset<= a b b"]

    def init(self):
        return frozenset()

    def canon(self, s):
        return sorted(s)

    def obs(self, s):
        ls = sorted(s)
        return [ls, len(ls), not ls, [p for p in ISET_P if p in s], sum(ls), ls, list(range(len(ls))), ls, len(ls), True]

    def rel(self, a, b):
        return [a == b, a <= b, a >= b, a == b, a <= b]

    def build(self):
        A = self.add
        fs = frozenset
        small = (0, 1, 32, 64, 255, 1024)           # depth-5 core: one element of every neighbourhood
        for e in ISET_A:
            A("iset-adjoin %d" % e, "(iset-adjoin cur %d)" % e, lambda s, c, e=e: s | {e}, lvl=0 if e in small else 1)
        for e in ISET_A:
            A("iset-delete %d" % e, "(iset-delete cur %d)" % e, lambda s, c, e=e: s - {e}, lvl=0 if e in small else 1)
        bins = [("iset-union", lambda a, b: a | b), ("iset-intersection", lambda a, b: a & b),
                ("iset-difference", lambda a, b: a - b)]
        for nm, f in bins:
            A("%s cur prev" % nm, "(%s cur prev)" % nm, lambda s, c, f=f: None if c.prev is None else f(s, c.prev), lvl=0)
        # ---- extended
        for nm, f in bins:
            A("%s cur prev2" % nm, "(%s cur prev2)" % nm, lambda s, c, f=f: None if c.prev2 is None else f(s, c.prev2), ext=True)
        for nm, f in bins:
            A("%s! cur prev" % nm, "(%s! cur prev)" % nm, lambda s, c, f=f: None if c.prev is None else f(s, c.prev),
              consumes=True, ext=True)
        A("iset-difference prev cur", "(iset-difference prev cur)", lambda s, c: None if c.prev is None else c.prev - s, ext=True)
        for e in (1, 63, 256):
            A("iset-adjoin! %d" % e, "(iset-adjoin! cur %d)" % e, lambda s, c, e=e: s | {e}, consumes=True, ext=True)
            A("iset-delete! %d" % e, "(iset-delete! cur %d)" % e, lambda s, c, e=e: s - {e}, consumes=True, ext=True)
        for lo, hi in ((62, 66), (0, 3), (30, 300)):
            r = fs(range(lo, hi + 1))
            A("iset-union cur (make-iset %d %d)" % (lo, hi), "(iset-union cur (make-iset %d %d))" % (lo, hi),
              lambda s, c, r=r: s | r, ext=True)
        A("iset-intersection cur (make-iset 1 1023)", "(iset-intersection cur (make-iset 1 1023))",
          lambda s, c: fs(e for e in s if 1 <= e <= 1023), ext=True)
        A("iset-difference cur (make-iset 32 255)", "(iset-difference cur (make-iset 32 255))",
          lambda s, c: fs(e for e in s if not 32 <= e <= 255), ext=True)
        A("iset-map +1", "(iset-map (lambda (x) (+ x 1)) cur)", lambda s, c: fs(e + 1 for e in s), ext=True)
        A("iset-copy", "(iset-copy cur)", lambda s, c: s, ext=True)
        A("iset-adjoin 2 3", "(iset-adjoin cur 2 3)", lambda s, c: s | {2, 3}, ext=True)
        A("list->iset (1024 0 64) cur", "(list->iset (list 1024 0 64) cur)", lambda s, c: s | {1024, 0, 64}, ext=True)
        A("(iset 65 63 64)", "(iset 65 63 64)", lambda s, c: fs({63, 64, 65}), ext=True)


# =====================================================================================================
# SRFI 101 random-access lists (model: tuple)
# =====================================================================================================
class Rlists(Lib):
    name = "srfi-101-rlist"
    imports = "(import (scheme base) (scheme write) (scheme read) (scheme file) (prefix (srfi 101) ra:))\n"
    scheme = r"""
(define (init) (ra:list))
(define (->l x) (ra:random-access-list->linear-access-list x))
(define (canon x) (->l x))
(define (obs x)
  (let ((n (ra:length x)))
    (olist (->l x)
           n
           (list (ra:null? x) (ra:pair? x) (ra:list? x))
           (let lp ((i (- n 1)) (acc '())) (if (< i 0) acc (lp (- i 1) (cons (ra:list-ref x i) acc))))
           (if (ra:pair? x) (ra:car x) 'none)
           (if (ra:pair? x) (->l (ra:cdr x)) 'none)
           (map (lambda (k) (ra:length<=? x k)) '(0 1 3 8))
           (let ((acc '())) (ra:for-each (lambda (e) (set! acc (cons e acc))) x) acc)
           (->l (ra:reverse x))
           (->l (ra:map (lambda (e) (* e 2)) x))
           (->l (ra:list-tail x (quotient n 2)))
           (->l (ra:append x (ra:list 7))))))
(define (rel2 a b)
  (if (= (ra:length a) (ra:length b))
      (olist (->l (ra:map + a b))
             (let ((acc '())) (ra:for-each (lambda (x y) (set! acc (cons (- x y) acc))) a b) acc))
      'different-lengths))
"""
    qnames = ["->linear", "length", "null?/pair?/list?", "list-ref", "car", "cdr", "length<=?", "for-each", "reverse", "map",
              "list-tail", "append"]
    rnames = ["map 2 lists", "for-each 2 lists"]

    def init(self):
        return ()

    def canon(self, x):
        return list(x)

    def obs(self, x):
        n = len(x)
        l = list(x)
        return [l, n, [n == 0, n > 0, True], l, l[0] if l else "none", l[1:] if l else "none",
                [n >= k for k in (0, 1, 3, 8)], l[::-1], l[::-1], [2 * e for e in l], l[n // 2:], l + [7]]

    def rel(self, a, b):
        if len(a) != len(b):
            return "different-lengths"
        return [[x + y for x, y in zip(a, b)], [x - y for x, y in zip(a, b)][::-1]]

    def build(self):
        A = self.add
        for e in E4:
            A("cons %d" % e, "(ra:cons %d cur)" % e, lambda x, c, e=e: (e,) + x, lvl=0 if e < 2 else 1)
        A("cdr", "(ra:cdr cur)", lambda x, c: x[1:] if x else None, lvl=0)

        def lset(x, i, v):
            return x[:i] + (v,) + x[i + 1:]
        A("list-set 0 9", "(ra:list-set cur 0 9)", lambda x, c: lset(x, 0, 9) if x else None, lvl=0)
        A("list-set 1 8", "(ra:list-set cur 1 8)", lambda x, c: lset(x, 1, 8) if len(x) > 1 else None)
        A("list-set last 7", "(ra:list-set cur (- (ra:length cur) 1) 7)", lambda x, c: lset(x, len(x) - 1, 7) if x else None, lvl=0)
        A("list-set mid 6", "(ra:list-set cur (quotient (ra:length cur) 2) 6)", lambda x, c: lset(x, len(x) // 2, 6) if x else None, lvl=0)
        A("list-tail 2", "(ra:list-tail cur 2)", lambda x, c: x[2:] if len(x) >= 2 else None, lvl=0)
        A("append cur prev", "(ra:append cur prev)", lambda x, c: None if c.prev is None else x + c.prev, lvl=0)
        A("append prev cur", "(ra:append prev cur)", lambda x, c: None if c.prev is None else c.prev + x)
        A("append cur cur", "(ra:append cur cur)", lambda x, c: x + x if len(x) <= 16 else None, lvl=0)
        A("reverse", "(ra:reverse cur)", lambda x, c: x[::-1], lvl=0)
        A("map +1 mod 4", "(ra:map (lambda (e) (modulo (+ e 1) 4)) cur)", lambda x, c: tuple((e + 1) % 4 for e in x))
        A("list-ref/update 0 +10",
          "(call-with-values (lambda () (ra:list-ref/update cur 0 (lambda (e) (+ e 10)))) (lambda (v l) (ret! v l)))",
          lambda x, c: Ret(lset(x, 0, x[0] + 10), x[0]) if x else None)
        A("list-ref/update last +10",
          "(call-with-values (lambda () (ra:list-ref/update cur (- (ra:length cur) 1) (lambda (e) (+ e 10)))) (lambda (v l) (ret! v l)))",
          lambda x, c: Ret(lset(x, len(x) - 1, x[-1] + 10), x[-1]) if x else None, lvl=0)
        A("(list 0 1 2 3 0 1 2)", "(ra:list 0 1 2 3 0 1 2)", lambda x, c: (0, 1, 2, 3, 0, 1, 2), lvl=0)
        A("(make-list 6 1)", "(ra:make-list 6 1)", lambda x, c: (1,) * 6)
        # ---- extended
        A("list-ref/update mid +10",
          "(call-with-values (lambda () (ra:list-ref/update cur (quotient (ra:length cur) 2) (lambda (e) (+ e 10)))) (lambda (v l) (ret! v l)))",
          lambda x, c: Ret(lset(x, len(x) // 2, x[len(x) // 2] + 10), x[len(x) // 2]) if x else None, ext=True)
        A("list-tail 1", "(ra:list-tail cur 1)", lambda x, c: x[1:] if x else None, ext=True)
        A("list-tail length", "(ra:list-tail cur (ra:length cur))", lambda x, c: (), ext=True)
        A("cddr", "(ra:cddr cur)", lambda x, c: x[2:] if len(x) >= 2 else None, ext=True)
        A("(list 0 .. 14)", "(ra:list 0 1 2 3 4 5 6 7 8 9 10 11 12 13 14)", lambda x, c: tuple(range(15)), ext=True)
        A("linear->ra (ra->linear cur)", "(ra:linear-access-list->random-access-list (->l cur))", lambda x, c: x, ext=True)
        A("(quote (3 2 1))", "(ra:quote (3 2 1))", lambda x, c: (3, 2, 1), ext=True)
        A("append cur prev prev2", "(ra:append cur prev prev2)",
          lambda x, c: None if c.prev2 is None or len(x) + len(c.prev) + len(c.prev2) > 40 else x + c.prev + c.prev2, ext=True)
        A("map + cur cur", "(ra:map + cur cur)", lambda x, c: tuple(2 * e for e in x), ext=True)
        A("(make-list 0 1)", "(ra:make-list 0 1)", lambda x, c: (), ext=True)
        A("(make-list 10 2)", "(ra:make-list 10 2)", lambda x, c: (2,) * 10, ext=True)
        A("cons 5 (cons 4 cur)", "(ra:cons 5 (ra:cons 4 cur))", lambda x, c: (5, 4) + x, ext=True)


# =====================================================================================================
# SRFI 117 list queues (mutable; model: tuple).  Every mutator consumes the version it is applied to.
# =====================================================================================================
class Queues(Lib):
    name = "srfi-117-list-queue"
    imports = "(import (scheme base) (scheme write) (scheme read) (scheme file) (srfi 117))\n"
    scheme = r"""
(define (init) (list-queue))
(define (canon q) (list-copy (list-queue-list q)))
(define (my-last-pair l) (if (pair? (cdr l)) (my-last-pair (cdr l)) l))
(define (obs q)
  (olist (list-copy (list-queue-list q))
         (list-queue-empty? q)
         (if (list-queue-empty? q) 'none (list-queue-front q))
         (if (list-queue-empty? q) 'none (list-queue-back q))
         (call-with-values (lambda () (list-queue-first-last q))
           (lambda (f l) (list (eq? f (list-queue-list q))
                               (if (null? f) (null? l) (and (pair? l) (eq? l (my-last-pair f)))))))
         (let ((acc '())) (list-queue-for-each (lambda (e) (set! acc (cons e acc))) q) acc)
         (list-queue? q)))
(define (rel2 a b) (olist (eq? a b) (list-copy (list-queue-list (list-queue-append a b)))))
"""
    qnames = ["list-queue-list", "list-queue-empty?", "list-queue-front", "list-queue-back", "list-queue-first-last",
              "list-queue-for-each", "list-queue?"]
    rnames = ["eq?", "list-queue-append a b"]

    def init(self):
        return ()

    def canon(self, q):
        return list(q)

    def obs(self, q):
        l = list(q)
        return [l, not l, l[0] if l else "none", l[-1] if l else "none", [True, True], l[::-1], True]

    def rel(self, a, b):
        return [False, list(a) + list(b)]

    def build(self):
        A = self.add
        for e in E4:
            A("add-front! %d" % e, "(begin (list-queue-add-front! cur %d) cur)" % e, lambda q, c, e=e: (e,) + q,
              consumes=True, lvl=0 if e < 2 else 1)
        for e in E4:
            A("add-back! %d" % e, "(begin (list-queue-add-back! cur %d) cur)" % e, lambda q, c, e=e: q + (e,),
              consumes=True, lvl=0 if e < 2 else 1)
        A("remove-front!", "(let ((x (list-queue-remove-front! cur))) (ret! x cur))",
          lambda q, c: Ret(q[1:], q[0]) if q else None, consumes=True, lvl=0)
        A("remove-back!", "(let ((x (list-queue-remove-back! cur))) (ret! x cur))",
          lambda q, c: Ret(q[:-1], q[-1]) if q else None, consumes=True, lvl=0)
        A("remove-all!", "(let ((x (list-queue-remove-all! cur))) (ret! x cur))", lambda q, c: Ret((), list(q)), consumes=True, lvl=0)
        A("copy", "(list-queue-copy cur)", lambda q, c: q, lvl=0)
        A("append cur prev", "(list-queue-append cur prev)", lambda q, c: None if c.prev is None else q + c.prev, lvl=0)
        A("append! cur prev", "(list-queue-append! cur prev)", lambda q, c: None if c.prev is None else q + c.prev,
          consumes=True, kills_other=True, lvl=0)
        A("map +1 mod 4", "(list-queue-map (lambda (e) (modulo (+ e 1) 4)) cur)", lambda q, c: tuple((e + 1) % 4 for e in q), lvl=0)
        A("map! +1 mod 4", "(begin (list-queue-map! (lambda (e) (modulo (+ e 1) 4)) cur) cur)",
          lambda q, c: tuple((e + 1) % 4 for e in q), consumes=True, lvl=0)
        A("set-list! (1 2)", "(begin (list-queue-set-list! cur (list 1 2)) cur)", lambda q, c: (1, 2), consumes=True, lvl=0)
        A("set-list! ()", "(begin (list-queue-set-list! cur (list)) cur)", lambda q, c: (), consumes=True, lvl=0)
        A("concatenate (cur prev cur)", "(list-queue-concatenate (list cur prev cur))",
          lambda q, c: None if c.prev is None or len(q) > 12 else q + c.prev + q)
        # ---- extended
        A("set-list! (3 0 3) with last", "(let ((l (list 3 0 3))) (list-queue-set-list! cur l (cddr l)) cur)",
          lambda q, c: (3, 0, 3), consumes=True, ext=True)
        A("(make-list-queue (0 1 2))", "(make-list-queue (list 0 1 2))", lambda q, c: (0, 1, 2), ext=True)
        A("(make-list-queue (2 3) last)", "(let ((l (list 2 3))) (make-list-queue l (cdr l)))", lambda q, c: (2, 3), ext=True)
        A("(list-queue 3 2 1)", "(list-queue 3 2 1)", lambda q, c: (3, 2, 1), ext=True)
        A("(list-queue-unfold ..) = (0 1 2)", "(list-queue-unfold (lambda (i) (> i 2)) (lambda (i) i) (lambda (i) (+ i 1)) 0)",
          lambda q, c: (0, 1, 2), ext=True)
        A("(list-queue-unfold-right ..) = (2 1 0)",
          "(list-queue-unfold-right (lambda (i) (> i 2)) (lambda (i) i) (lambda (i) (+ i 1)) 0)", lambda q, c: (2, 1, 0), ext=True)
        A("append prev cur", "(list-queue-append prev cur)", lambda q, c: None if c.prev is None else c.prev + q, ext=True)
        A("append cur", "(list-queue-append cur)", lambda q, c: q, ext=True)
        A("append! cur", "(list-queue-append! cur)", lambda q, c: q, consumes=True, ext=True)
        A("append (no queues)", "(list-queue-append)", lambda q, c: (), ext=True)


# =====================================================================================================
# SRFI 134 immutable deques (model: tuple)
# =====================================================================================================
class Ideques(Lib):
    name = "srfi-134-ideque"
    imports = "(import (scheme base) (scheme write) (scheme read) (scheme file) (srfi 134))\n"
    scheme = r"""
(define (init) (ideque))
(define (canon d) (ideque->list d))
(define (oddv x) (and (odd? x) x))
(define (gen->list g) (let lp ((acc '()) (fuel 100)) (let ((x (g))) (if (or (eof-object? x) (= fuel 0)) (reverse acc) (lp (cons x acc) (- fuel 1))))))
(define (obs d)
  (let ((n (ideque-length d)))
    (olist (ideque->list d)
           n
           (ideque-empty? d)
           (if (ideque-empty? d) 'none (ideque-front d))
           (if (ideque-empty? d) 'none (ideque-back d))
           (let lp ((i (- n 1)) (acc '())) (if (< i 0) acc (lp (- i 1) (cons (ideque-ref d i) acc))))
           (ideque-fold cons '() d)
           (ideque-fold-right cons '() d)
           (let ((acc '())) (ideque-for-each (lambda (e) (set! acc (cons e acc))) d) acc)
           (let ((acc '())) (ideque-for-each-right (lambda (e) (set! acc (cons e acc))) d) acc)
           (ideque-count odd? d)
           (ideque-any oddv d)
           (ideque-every oddv d)
           (ideque-find odd? d (lambda () 'none))
           (ideque-find-right odd? d (lambda () 'none))
           (gen->list (ideque->generator d))
           (ideque->list (ideque-reverse d))
           (ideque->list (ideque-map (lambda (e) (* e 2)) d))
           (ideque? d))))
(define (rel2 a b)
  (olist (ideque= = a b) (ideque= = a b a) (ideque= = b a)
         (ideque->list (ideque-append a b))))
"""
    qnames = ["ideque->list", "ideque-length", "ideque-empty?", "ideque-front", "ideque-back", "ideque-ref", "ideque-fold",
              "ideque-fold-right", "ideque-for-each", "ideque-for-each-right", "ideque-count", "ideque-any", "ideque-every",
              "ideque-find", "ideque-find-right", "ideque->generator", "ideque-reverse", "ideque-map", "ideque?"]
    rnames = ["ideque= a b", "ideque= a b a", "ideque= b a", "ideque-append a b"]

    def init(self):
        return ()

    def canon(self, d):
        return list(d)

    def obs(self, d):
        l = list(d)
        odd = [e for e in l if e % 2]
        return [l, len(l), not l, l[0] if l else "none", l[-1] if l else "none", l, l[::-1], l, l[::-1], l, len(odd),
                odd[0] if odd else False, (l[-1] if l else True) if len(odd) == len(l) else False,
                odd[0] if odd else "none", odd[-1] if odd else "none", l, l[::-1], [2 * e for e in l], True]

    def rel(self, a, b):
        return [a == b, a == b, a == b, list(a) + list(b)]

    def build(self):
        A = self.add
        for e in E4:
            A("add-front %d" % e, "(ideque-add-front cur %d)" % e, lambda d, c, e=e: (e,) + d, lvl=0 if e < 2 else 1)
        for e in E4:
            A("add-back %d" % e, "(ideque-add-back cur %d)" % e, lambda d, c, e=e: d + (e,), lvl=0 if e in (1, 2) else 1)
        A("remove-front", "(ideque-remove-front cur)", lambda d, c: d[1:] if d else None, lvl=0)
        A("remove-back", "(ideque-remove-back cur)", lambda d, c: d[:-1] if d else None, lvl=0)
        A("reverse", "(ideque-reverse cur)", lambda d, c: d[::-1], lvl=0)
        A("take 2", "(ideque-take cur 2)", lambda d, c: d[:2] if len(d) >= 2 else None, lvl=0)
        A("drop 2", "(ideque-drop cur 2)", lambda d, c: d[2:] if len(d) >= 2 else None, lvl=0)
        A("take-right 2", "(ideque-take-right cur 2)", lambda d, c: d[-2:] if len(d) >= 2 else None, lvl=0)
        A("drop-right 2", "(ideque-drop-right cur 2)", lambda d, c: d[:-2] if len(d) >= 2 else None, lvl=0)
        A("append cur prev", "(ideque-append cur prev)", lambda d, c: None if c.prev is None or len(d) + len(c.prev) > 40 else d + c.prev, lvl=0)
        A("filter odd?", "(ideque-filter odd? cur)", lambda d, c: tuple(e for e in d if e % 2), lvl=0)
        A("map +1 mod 4", "(ideque-map (lambda (e) (modulo (+ e 1) 4)) cur)", lambda d, c: tuple((e + 1) % 4 for e in d))

        def tw(d):
            i = 0
            while i < len(d) and d[i] % 2:
                i += 1
            return i

        def twr(d):
            i = len(d)
            while i > 0 and d[i - 1] % 2:
                i -= 1
            return i
        A("take-while odd?", "(ideque-take-while odd? cur)", lambda d, c: d[:tw(d)], lvl=0)
        A("drop-while odd?", "(ideque-drop-while odd? cur)", lambda d, c: d[tw(d):], lvl=0)
        A("(list->ideque (0 1 2 3 0 1 2))", "(list->ideque (list 0 1 2 3 0 1 2))", lambda d, c: (0, 1, 2, 3, 0, 1, 2), lvl=0)
        # ---- level 1 / extended
        A("append prev cur", "(ideque-append prev cur)", lambda d, c: None if c.prev is None or len(d) + len(c.prev) > 40 else c.prev + d)
        A("remove odd?", "(ideque-remove odd? cur)", lambda d, c: tuple(e for e in d if not e % 2))
        A("take-while-right odd?", "(ideque-take-while-right odd? cur)", lambda d, c: d[twr(d):])
        A("drop-while-right odd?", "(ideque-drop-while-right odd? cur)", lambda d, c: d[:twr(d)])
        A("take length", "(ideque-take cur (ideque-length cur))", lambda d, c: d, ext=True)
        A("drop length", "(ideque-drop cur (ideque-length cur))", lambda d, c: (), ext=True)
        A("take 0", "(ideque-take cur 0)", lambda d, c: (), ext=True)
        A("drop 1", "(ideque-drop cur 1)", lambda d, c: d[1:] if d else None, ext=True)
        A("take-right 1", "(ideque-take-right cur 1)", lambda d, c: d[-1:] if d else None, ext=True)
        A("drop-right 1", "(ideque-drop-right cur 1)", lambda d, c: d[:-1] if d else None, ext=True)
        A("drop 3", "(ideque-drop cur 3)", lambda d, c: d[3:] if len(d) >= 3 else None, ext=True)
        A("split-at 1 (second)", "(call-with-values (lambda () (ideque-split-at cur 1)) (lambda (a b) (ret! (ideque->list a) b)))",
          lambda d, c: Ret(d[1:], list(d[:1])) if d else None, ext=True)
        A("span odd? (second)", "(call-with-values (lambda () (ideque-span odd? cur)) (lambda (a b) (ret! (ideque->list a) b)))",
          lambda d, c: Ret(d[tw(d):], list(d[:tw(d)])), ext=True)

        def brk(d):
            i = 0
            while i < len(d) and not d[i] % 2:
                i += 1
            return i
        A("break odd? (second)", "(call-with-values (lambda () (ideque-break odd? cur)) (lambda (a b) (ret! (ideque->list a) b)))",
          lambda d, c: Ret(d[brk(d):], list(d[:brk(d)])), ext=True)
        A("partition odd? (second)",
          "(call-with-values (lambda () (ideque-partition odd? cur)) (lambda (a b) (ret! (ideque->list a) b)))",
          lambda d, c: Ret(tuple(e for e in d if not e % 2), [e for e in d if e % 2]), ext=True)
        A("filter-map odd->x+1", "(ideque-filter-map (lambda (e) (and (odd? e) (modulo (+ e 1) 4))) cur)",
          lambda d, c: tuple((e + 1) % 4 for e in d if e % 2), ext=True)
        A("append-map x->(x x) if odd", "(ideque-append-map (lambda (e) (if (odd? e) (list e e) (list))) cur)",
          lambda d, c: None if len(d) > 20 else tuple(x for e in d if e % 2 for x in (e, e)), ext=True)
        A("(ideque-tabulate 5 i->i mod 4)", "(ideque-tabulate 5 (lambda (i) (modulo i 4)))", lambda d, c: (0, 1, 2, 3, 0), ext=True)
        A("(ideque-unfold ..) = (0 1 2)", "(ideque-unfold (lambda (i) (> i 2)) (lambda (i) i) (lambda (i) (+ i 1)) 0)",
          lambda d, c: (0, 1, 2), ext=True)
        A("(ideque-unfold-right ..) = (2 1 0)", "(ideque-unfold-right (lambda (i) (> i 2)) (lambda (i) i) (lambda (i) (+ i 1)) 0)",
          lambda d, c: (2, 1, 0), ext=True)
        A("(ideque 3 2 1)", "(ideque 3 2 1)", lambda d, c: (3, 2, 1), ext=True)
        A("append cur prev prev2", "(ideque-append cur prev prev2)",
          lambda d, c: None if c.prev2 is None or len(d) + len(c.prev) + len(c.prev2) > 40 else d + c.prev + c.prev2, ext=True)
        A("zip cur cur -> map car", "(ideque-map car (ideque-zip cur cur))", lambda d, c: d, ext=True)


# the iset alphabet has 12 elements (24 adjoin/delete operations): level 0 uses the 6-element sub-alphabet
# {0 1 32 64 255 1024}, level 1 all 12 elements.
for _c in (Mappings, Isets, Rlists, Queues, Ideques):
    register(_c)
