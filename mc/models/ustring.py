"""Abstract strings for C12: a string is a Python list of Unicode scalar values (ints), nothing else.

Deliberately boring: no `str`, no `.encode()`, no slicing tricks that would mirror the implementation.
The UTF-8 encoder/decoder below is the arithmetic definition from RFC 3629 section 3; `selftest()` compares
it with CPython's codec on boundary values (the checks call it once per run).
"""

MAX_SCALAR = 0x10FFFF


def is_scalar(cp):
    return 0 <= cp <= MAX_SCALAR and not (0xD800 <= cp <= 0xDFFF)


def width(cp):
    if cp < 0x80:
        return 1
    if cp < 0x800:
        return 2
    if cp < 0x10000:
        return 3
    return 4


def encode_cp(cp):
    """RFC 3629 table, by division (no shifts, so it is not a transcription of the C code)."""
    if cp < 0x80:
        return [cp]
    if cp < 0x800:
        return [0xC0 + cp // 64, 0x80 + cp % 64]
    if cp < 0x10000:
        return [0xE0 + cp // 4096, 0x80 + (cp // 64) % 64, 0x80 + cp % 64]
    return [0xF0 + cp // 262144, 0x80 + (cp // 4096) % 64, 0x80 + (cp // 64) % 64, 0x80 + cp % 64]


def encode(cps):
    out = []
    for cp in cps:
        out.extend(encode_cp(cp))
    return out


def decode_strict(bs):
    """bytes (list of ints) -> list of code points, or None when the sequence is not well-formed UTF-8
    (Unicode 15 table 3-7: no overlong forms, no surrogates, nothing above U+10FFFF, no truncation)."""
    out = []
    i = 0
    n = len(bs)
    while i < n:
        b0 = bs[i]
        if b0 < 0x80:
            out.append(b0)
            i += 1
            continue
        if 0xC2 <= b0 <= 0xDF:
            need, cp, lo = 1, b0 - 0xC0, 0x80
        elif 0xE0 <= b0 <= 0xEF:
            need, cp, lo = 2, b0 - 0xE0, 0x800
        elif 0xF0 <= b0 <= 0xF4:
            need, cp, lo = 3, b0 - 0xF0, 0x10000
        else:
            return None
        if i + need > n - 1:          # truncated sequence
            return None
        for k in range(1, need + 1):
            b = bs[i + k]
            if not (0x80 <= b <= 0xBF):
                return None
            cp = cp * 64 + (b - 0x80)
        if cp < lo or not is_scalar(cp):
            return None
        out.append(cp)
        i += need + 1
    return out


def byte_offsets(cps):
    """byte offset of every character boundary: len(cps)+1 entries"""
    offs = [0]
    for cp in cps:
        offs.append(offs[-1] + width(cp))
    return offs


# ---- the operations on the abstract array (all pure: return new lists) ----------------------------------

def set_(s, i, c):
    r = list(s)
    r[i] = c
    return r


def fill(s, c, start=0, end=None):
    if end is None:
        end = len(s)
    r = list(s)
    for i in range(start, end):
        r[i] = c
    return r


def sub(s, start=0, end=None):
    if end is None:
        end = len(s)
    r = []
    for i in range(start, end):
        r.append(s[i])
    return r


def append(*ss):
    r = []
    for s in ss:
        for c in s:
            r.append(c)
    return r


def copy_into(to, at, frm, start=0, end=None):
    """R7RS string-copy!: as if the source range were first copied to a temporary."""
    if end is None:
        end = len(frm)
    tmp = sub(frm, start, end)
    r = list(to)
    for k in range(len(tmp)):
        r[at + k] = tmp[k]
    return r


def compare(a, b):
    """-1/0/1 by lexicographic order of scalar values (the 'one approach' of R7RS 6.7)"""
    n = min(len(a), len(b))
    for i in range(n):
        if a[i] != b[i]:
            return -1 if a[i] < b[i] else 1
    if len(a) == len(b):
        return 0
    return -1 if len(a) < len(b) else 1


def checksum_block(lo, hi, mod=1000000007):
    """rolling checksum of the UTF-8 bytes of every scalar value in [lo, hi): h = (h*31 + byte + 1) mod p"""
    h = 0
    n = 0
    for cp in range(lo, hi):
        if 0xD800 <= cp <= 0xDFFF:
            continue
        n += 1
        for b in encode_cp(cp):
            h = (h * 31 + b + 1) % mod
    return h, n


def selftest():
    probe = [0, 1, 0x7F, 0x80, 0x7FF, 0x800, 0xFFF, 0x1000, 0xD7FF, 0xE000, 0xFFFD, 0xFFFF, 0x10000, 0x1F600,
             0x3FFFF, 0x40000, 0xFFFFF, 0x100000, 0x10FFFF, 0xE9, 0x20AC]
    probe += list(range(0, 0x110000, 257))
    for cp in probe:
        if not is_scalar(cp):
            continue
        e = encode_cp(cp)
        if bytes(e) != chr(cp).encode("utf-8"):
            raise AssertionError("model encoder disagrees with CPython at U+%04X" % cp)
        if decode_strict(e) != [cp]:
            raise AssertionError("model decoder disagrees at U+%04X" % cp)
        if len(e) != width(cp):
            raise AssertionError("width")
    for bad in ([0xC0, 0x80], [0xE0, 0x80, 0x80], [0xED, 0xA0, 0x80], [0xF4, 0x90, 0x80, 0x80], [0x80], [0xE2, 0x82],
                [0xF0, 0x9F, 0x98], [0xC3], [0xF8, 0x88, 0x80, 0x80, 0x80], [0x61, 0xAC]):
        if decode_strict(bad) is not None:
            raise AssertionError("model decoder accepts ill-formed %r" % (bad,))
    return True
