(import (scheme base) (scheme write))
;; bounded live data (never more than two vectors of <= 16000 slots and a short list), requests in ascending, descending and
;; alternating sizes: when a collection is triggered by a request that is larger than every single dead object, the dead
;; neighbours coalesce into chunks that fit it, so the heap must stop growing
(define keep #f)
(define keep2 #f)
(define (ascending lo hi step) (do ((n lo (+ n step))) ((> n hi)) (set! keep (make-vector n 0))))
(define (descending hi lo step) (do ((n hi (- n step))) ((< n lo)) (set! keep (make-vector n 0))))
(define (alternating lo hi step) (do ((n lo (+ n step))) ((> n hi)) (set! keep (make-vector n 0)) (set! keep2 (make-bytevector (+ 1 (modulo (* n 7) 900)) 0))))
(define sizes '())
(do ((r 0 (+ r 1))) ((= r 16))
  (ascending 100 16000 4)
  (descending 16000 100 12)
  (alternating 1000 16000 28)
  (ascending 15000 16000 1)
  (%verif 'gc #f)
  (set! sizes (cons (%verif 'heap-total #f) sizes)))
(display "SIZES ") (write (reverse sizes)) (newline)
(display "HEAPCHECK ") (write (%verif 'heap-check #f)) (newline)
