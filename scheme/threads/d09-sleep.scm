;; sleeping threads wake up and finish
(define order '())
(define m (make-mutex))
(define (sleeper name secs) (make-thread (lambda () (thread-sleep! secs) (mutex-lock! m) (set! order (cons name order)) (mutex-unlock! m) name)))
(define a (sleeper 'a 0.3)) (define b (sleeper 'b 0.1))
(define (driver)
  (thread-start! a) (thread-start! b)
  (check 'a (eq? 'a (thread-join! a))) (check 'b (eq? 'b (thread-join! b)))
  (result (length order)))
