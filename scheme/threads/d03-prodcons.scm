;; producer / consumer with (mutex-unlock! m cv) and signal: no lost wake-up
(define m (make-mutex)) (define cv (make-condition-variable))
(define box '()) (define got '())
(define consumer
  (make-thread
   (lambda ()
     (let loop ((n 0))
       (if (< n 2)
           (begin
             (mutex-lock! m)
             (let wait ()
               (if (null? box)
                   (begin (mutex-unlock! m cv) (mutex-lock! m) (wait))))
             (set! got (cons (car box) got)) (set! box (cdr box))
             (mutex-unlock! m)
             (loop (+ n 1)))))
     (reverse got))))
(define producer
  (make-thread
   (lambda ()
     (mutex-lock! m) (set! box (append box (list 'a))) (condition-variable-signal! cv) (mutex-unlock! m)
     (mutex-lock! m) (set! box (append box (list 'b))) (condition-variable-signal! cv) (mutex-unlock! m)
     'produced)))
(define (driver)
  (thread-start! consumer) (thread-start! producer)
  (check 'producer (eq? 'produced (thread-join! producer)))
  (result (thread-join! consumer)))
