(driver)
