;; yield storm: every started thread runs to completion
(define done 0) (define m (make-mutex))
(define (body n) (lambda () (let loop ((i 0)) (if (< i n) (begin (thread-yield!) (loop (+ i 1))))) (mutex-lock! m) (set! done (+ done 1)) (mutex-unlock! m) n))
(define t1 (make-thread (body 1))) (define t2 (make-thread (body 2))) (define t3 (make-thread (body 3)))
(define (driver)
  (thread-start! t1) (thread-start! t2) (thread-start! t3)
  (let* ((r1 (thread-join! t1)) (r2 (thread-join! t2)) (r3 (thread-join! t3)))
    (result (list done r1 r2 r3))))
