(import (scheme base) (scheme write)
        (only (chibi) er-macro-transformer sc-macro-transformer rsc-macro-transformer make-syntactic-closure identifier=?))
;; helpers with names that never occur in the renaming set
(define (%l . xs) xs)
(define (%add a b) (+ a b))
(define (%helper x) (%l 'h x))
(define helper %helper)          ; free identifier referenced by templates
(define tmp 'global-tmp)
(define (run-case n thunk)
  (let ((r (guard (e (#t 'ERR)) (thunk))))
    (display "#") (display n) (display " ") (write r) (newline)))

;; 1 binding-introducing
(define-syntax my-or
  (syntax-rules () ((_) #f) ((_ e) e) ((_ e r ...) (let ((tmp e)) (if tmp tmp (my-or r ...))))))
(define-syntax swap!
  (syntax-rules () ((_ a b) (let ((tmp a)) (set! a b) (set! b tmp)))))
(define-syntax repeat
  (syntax-rules () ((_ n body ...) (let loop ((i 0)) (when (< i n) body ... (loop (+ i 1)))))))
;; 2 free references to a top-level helper and to standard procedures
(define-syntax call-helper
  (syntax-rules () ((_ e) (helper (cons e (list tmp))))))
;; 3 nested ellipsis
(define-syntax groups
  (syntax-rules () ((_ (a b ...) ...) (list (list a (list b ...)) ...))))
(define-syntax my-let*
  (syntax-rules () ((_ () body ...) (let () body ...))
                   ((_ ((x v) rest ...) body ...) (let ((x v)) (my-let* (rest ...) body ...)))))
;; 4 literals
(define-syntax my-cond
  (syntax-rules (else =>)
    ((_ (else e)) e)
    ((_ (c => f) r ...) (let ((t c)) (if t (f t) (my-cond r ...))))
    ((_ (c e) r ...) (if c e (my-cond r ...)))))
(define-syntax kw
  (syntax-rules (from)
    ((_ from x) (list 'lit x))
    ((_ y x) (list 'var y x))))
;; 5 macro-defining macro
(define-syntax def-const
  (syntax-rules ()
    ((_ name val) (define-syntax name (syntax-rules () ((_) (let ((tmp val)) (list tmp))))))))
;; 6 explicit renaming / syntactic closures versions of my-or and swap!
(define-syntax my-or-er
  (er-macro-transformer
   (lambda (form rename compare)
     (let ((args (cdr form)))
       (cond ((null? args) #f)
             ((null? (cdr args)) (car args))
             (else (list (rename 'let) (list (list (rename 'tmp) (car args)))
                         (list (rename 'if) (rename 'tmp) (rename 'tmp)
                               (cons (rename 'my-or-er) (cdr args))))))))))
(define-syntax swap-er!
  (er-macro-transformer
   (lambda (form rename compare)
     (let ((a (cadr form)) (b (car (cddr form))))
       (list (rename 'let) (list (list (rename 'tmp) a))
             (list (rename 'set!) a b)
             (list (rename 'set!) b (rename 'tmp)))))))
(define-syntax my-or-sc
  (sc-macro-transformer
   (lambda (form env)
     (let ((args (map (lambda (x) (make-syntactic-closure env '() x)) (cdr form))))
       (cond ((null? args) #f)
             ((null? (cdr args)) (car args))
             (else `(let ((tmp ,(car args))) (if tmp tmp (my-or-sc ,@(cdr args))))))))))
(define-syntax my-or-rsc
  (rsc-macro-transformer
   (lambda (form env)
     (let* ((args (cdr form))
            (r (lambda (x) (make-syntactic-closure env '() x)))
            (tmp* (r 'tmp)))        ; one alias, used both as the binding and as the references
       (cond ((null? args) #f)
             ((null? (cdr args)) (car args))
             (else (list (r 'let) (list (list tmp* (car args)))
                         (list (r 'if) tmp* tmp* (cons (r 'my-or-rsc) (cdr args))))))))))
(define-syntax else-lit-er
  (er-macro-transformer
   (lambda (form rename compare)
     (list (rename 'quote) (if (compare (cadr form) (rename 'else)) 'is-else 'not-else)))))
;; 8 macro-defining macro whose outer template supplies an identifier that ends up free in one generated macro and as a binder in
;;   a sibling generated macro: the binder introduced by `wrap` must not capture the reference inserted by `get`
(define-syntax with-x
  (syntax-rules ()
    ((_ get wrap body)
     (let ((x 'outer-x))
       (let-syntax ((get (syntax-rules () ((_) x)))
                    (wrap (syntax-rules () ((_ e) (let ((x 'wrap-x)) e)))))
         body)))))
;; 9 generate-temporaries idiom inside a generated macro: every expansion step inserts a new `t`, all distinct binders
(define-syntax define-collector
  (syntax-rules ()
    ((_ name)
     (define-syntax name
       (syntax-rules ()
         ((_ () (tmp (... ...)) (e (... ...)))
          (let ((tmp e) (... ...)) (list tmp (... ...))))
         ((_ (a . rest) (tmp (... ...)) (e (... ...)))
          (name rest (tmp (... ...) t) (e (... ...) a))))))))
(define-collector collect)
