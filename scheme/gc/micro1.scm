(show (let loop ((i 0) (acc '())) (if (= i 6) (reverse acc) (loop (+ i 1) (cons (vector i (lambda () acc) (number->string (* i 1000000007 1000000007))) acc)))))
(show (call/cc (lambda (k) (dynamic-wind (lambda () #f) (lambda () (k (list (string-append "a" "€") (expt 7 40)))) (lambda () #f)))))
