(import (scheme base) (scheme write) (chibi crypto sha2) (srfi 27) (chibi time) (chibi filesystem) (chibi io) (chibi system) (except (scheme bytevector) bytevector-copy!) (srfi 144) (srfi 160 base) (chibi string) (only (chibi) string-cursor->index))
(define (show x) (write x) (newline))
