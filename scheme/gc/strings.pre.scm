(import (scheme base) (scheme write) (scheme char) (scheme read))
(define (show x) (write x) (newline))
