;; procedures that outlive the environment they were compiled in: the global cells they refer to are reachable only
;; through the compiled code (its literal list), not through any environment the program still holds
(define (make-lookup k)
  (eval (list 'begin
              (list 'define 'table (list 'vector k (+ k 1) (list 'list k "s")))
              '(define (helper i) (vector-ref table i))
              '(define counter 0)
              '(lambda (i) (set! counter (+ counter 1)) (list (helper i) counter)))
        (mutable-environment '(scheme base))))
(define fs (map make-lookup '(10 20 30)))
(show (churn 60))
(show (map (lambda (f) (list (f 0) (f 1) (f 2))) fs))
(show (churn 60))
(show (map (lambda (f) (f 2)) fs))
;; a variable that is later redefined as syntax: procedures compiled before still see the variable's cell
(define env2 (mutable-environment '(scheme base)))
(eval '(define foo (list 'the 'original "foo")) env2)
(define get-foo (eval '(lambda () foo) env2))
(eval '(define-syntax foo (syntax-rules () ((_) 'macro))) env2)
(show (churn 60))
(show (guard (e (#t 'exception)) (get-foo)))
(show (eval '(foo) env2))
(set! env2 #f)
(show (churn 60))
(show (guard (e (#t 'exception)) (get-foo)))
;; closures returned from a let over lambda in a dropped environment, with a literal constant and a macro use
(define adders
  (let ((e (mutable-environment '(scheme base))))
    (eval '(define base (list 100 200)) e)
    (eval '(define-syntax twice (syntax-rules () ((_ x) (list x x)))) e)
    (map (lambda (n) (eval (list 'lambda '(x) (list 'twice (list '+ 'x n '(car base) '(quote 0)))) e)) '(1 2 3))))
(show (churn 60))
(show (map (lambda (f) (f 5)) adders))
