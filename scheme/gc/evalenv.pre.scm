(import (scheme base) (scheme write) (scheme eval) (only (meta) mutable-environment))
(define (show x) (write x) (newline))
(define (churn n) (let loop ((i 0) (acc '())) (if (< i n) (loop (+ i 1) (if (> (length acc) 20) '() (cons (make-vector 3 i) acc))) (length acc))))
