(import (scheme base) (scheme write) (scheme read) (scheme file) (scheme process-context) (chibi json) (srfi 98) (scheme time) (chibi io) (scheme cxr) (only (chibi) call-with-output-string))
(define (show x) (write x) (newline))
