(import (scheme base) (scheme write) (scheme inexact) (scheme complex))
(define (show x) (write x) (newline))
(define (fact n) (if (= n 0) 1 (* n (fact (- n 1)))))
(define (fib n) (let loop ((a 0) (b 1) (i 0)) (if (= i n) a (loop b (+ a b) (+ i 1)))))
