(define-record-type node (make-node v next) node? (v node-v) (next node-next set-node-next!))
(show (let ((n (make-node (list 1 2.5 "s") #f))) (set-node-next! n (make-node (string->symbol "x y") n)) (list (node-v n) (node-v (node-next n)) (eq? n (node-next (node-next n))))))
(show (guard (e (#t (list (error-object-message e) (error-object-irritants e)))) (error "m" (vector 1 (list 2)) (* 3 (expt 2 62)))))
(show (let ((p (open-output-string))) (write (list 1/3 (inexact 1/3) #\x "q\n") p) (get-output-string p)))
