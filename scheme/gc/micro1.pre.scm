(import (scheme base) (scheme write))
(define (show x) (write x) (newline))
