(import (scheme base) (scheme write) (scheme char) (scheme repl) (chibi ast) (chibi weak) (chibi disasm) (chibi heap-stats) (srfi 95) (only (chibi) call-with-output-string make-syntactic-closure strip-syntactic-closures identifier? identifier->symbol))
(define (show x) (write x) (newline))
