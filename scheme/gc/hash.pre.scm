(import (scheme base) (scheme write) (srfi 69) (srfi 95) (srfi 151))
(define (show x) (write x) (newline))
(define (sorted-alist h) (sort (hash-table->alist h) (lambda (a b) (string<? (if (string? (car a)) (car a) (number->string (car a))) (if (string? (car b)) (car b) (number->string (car b)))))))
