(import (scheme base) (scheme write) (srfi 18))
(define (show x) (write x) (newline))
