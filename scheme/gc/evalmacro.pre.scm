(import (scheme base) (scheme write) (scheme eval) (scheme repl))
(define (show x) (write x) (newline))
(define env (environment '(scheme base)))
