(import (scheme base) (scheme write) (scheme cxr) (srfi 1))
(define (show x) (write x) (newline))
(define (range a b) (if (>= a b) '() (cons a (range (+ a 1) b))))
(define (compose . fs) (if (null? fs) (lambda (x) x) (lambda (x) ((car fs) ((apply compose (cdr fs)) x)))))
